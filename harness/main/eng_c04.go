//go:build verif && (all || c04)

package main

import (
	"bufio"
	"bytes"
	"context"
	"encoding/binary"
	"encoding/hex"
	"fmt"
	"io"
	"net"
	"os"
	"path/filepath"
	"sort"
	"sync"
	"sync/atomic"
	"time"

	"golang.org/x/crypto/chacha20poly1305"

	"github.com/postalsys/muti-metroo/internal/agent"
	"github.com/postalsys/muti-metroo/internal/config"
	"github.com/postalsys/muti-metroo/internal/crypto"
	"github.com/postalsys/muti-metroo/internal/health"
	"github.com/postalsys/muti-metroo/internal/icmp"
	"github.com/postalsys/muti-metroo/internal/identity"
	"github.com/postalsys/muti-metroo/internal/protocol"
	"github.com/postalsys/muti-metroo/internal/shell"
	"github.com/postalsys/muti-metroo/internal/transport"
	"github.com/postalsys/muti-metroo/internal/udp"
)

// Engine c04.
//
// Unit level (what an endpoint does with / without a session key, and with an all-zero peer key):
//
//	seal <payload>            crypto.SessionKey.Encrypt                 -> sealed <len> leak <0|1>
//	assoc <0|1|closed> <payload>  udp.Association.Encrypt (1 = key set; closed = key set, then Close())
//	                                                                    -> sealed <len> leak <0|1> | plain | err
//	icmpsess <0|1> <payload>  icmp.Session.Encrypt                      -> sealed <len> leak <0|1> | plain
//	icmpinit zero|honest      agent.deriveICMPSessionKey (ingress)      -> key | nil | err
//	respkey zero|honest       agent.deriveResponderSessionKey (exit)    -> key | err
//
// Mesh level: three real agents in this process, A (SOCKS5 ingress) - B (transit) - C (exit), loopback
// QUIC, with a tap on every frame B receives:
//
//	mesh tcp|udp|fwd <payload>  open a tunnel (SOCKS5 CONNECT / SOCKS5 UDP ASSOCIATE / configured port
//	                            forward) to a local echo server, send the payload, read the echo
//	   -> ok echo <0|1> leak <n> up <plain bytes> <seq ok> down <plain bytes> <seq ok>
//	mesh file <payload>         Agent.UploadFile of a file holding the payload to the exit, then
//	                            Agent.DownloadFile of it; echo = downloaded bytes equal the payload
//	mesh shell <payload>        Agent.OpenShellStream running `echo <hex of payload>` on the exit;
//	                            echo = the hex text came back on stdout (leak looks for the hex text)
//	   -> ok echo <0|1> leak <n> seq <up ok> <down ok>
//	every mesh answer ends with ` zk <n> ua <n>`: zk = relayed data frames that open under the ALL-ZERO key
//	(a key everybody knows), ua = relayed data frames that do not open under the tunnel's real key (taken
//	from the ingress agent's stream while the tunnel is up; tcp/fwd/tcpclose only, 0 otherwise)
//	mesh tcpclose <payload>     the destination hangs up after 20000 bytes while the client keeps writing the
//	                            payload in 64 KiB writes (close arriving in the middle of multi-frame writes), three
//	                            connections                                  -> ok leak <n> zk <n> ua <n>
//	mesh udpzero <payload>      ACTIVE transit: the tap overwrites the ephemeral key field of UDP_OPEN and
//	                            UDP_OPEN_ACK with zeros before the transit processes (relays) them; then as
//	                            `mesh udp`                                   -> ok echo <0|1> leak <n>
//	   leak = number of frames at B (any type) whose payload contains the application payload;
//	   per direction: sum over data frames of (payload length - 28), and whether every data frame
//	   carries the sender's direction prefix and consecutive counters from 0 per stream.
func c04Session(isInit bool) *crypto.SessionKey {
	var secret, pubI, pubR [crypto.KeySize]byte
	for k := range secret {
		secret[k] = byte(0x31 + k)
		pubI[k] = byte(0x60 + k)
		pubR[k] = byte(0xb0 + k)
	}
	return crypto.DeriveSessionKey(secret, 9, pubI, pubR, isInit)
}

func c04Sealed(payload, ct []byte, err error) string {
	if err != nil {
		return "err"
	}
	if bytes.Equal(ct, payload) {
		return "plain"
	}
	leak := 0
	if len(payload) >= 8 && bytes.Contains(ct, payload) {
		leak = 1
	}
	return fmt.Sprintf("sealed %d leak %d", len(ct), leak)
}

// ------------------------------------------------------------------------------------------ mesh

type c04Frame struct {
	peer    identity.AgentID
	typ     uint8
	stream  uint64
	payload []byte
}

type c04Mesh struct {
	a, b, c  *agent.Agent
	dir      string
	mu       sync.Mutex
	log      []c04Frame
	seq      int
	lastCtr  map[string]uint64 // (peer, stream) -> last counter seen; kept across ops (stream ids are never reused)
	tcpEcho  net.Listener
	tcpHang  net.Listener // accepts, reads 20000 bytes, hangs up
	realKeys [][32]byte   // tunnel keys seen at the ingress during the current op
	udpEcho  net.PacketConn
	socks    string
	fwd      string
	oldStreams map[string]bool // (peer, stream) pairs that belong to earlier ops: their late frames are not this op's
	zeroKeys atomic.Bool // active mode: zero the key fields of UDP_OPEN / UDP_OPEN_ACK
	startErr error
}

var (
	c04MeshOnce sync.Once
	c04M        *c04Mesh
)

func c04FreeUDPPort() (string, error) {
	pc, err := net.ListenPacket("udp", "127.0.0.1:0")
	if err != nil {
		return "", err
	}
	defer pc.Close()
	return pc.LocalAddr().String(), nil
}

func (m *c04Mesh) cfg(name string, listen string, peers []string) (*config.Config, error) {
	cfg := config.Default()
	d := filepath.Join(m.dir, name)
	if err := os.MkdirAll(d, 0o700); err != nil {
		return nil, err
	}
	cfg.Agent.DataDir = d
	cfg.Agent.LogLevel = "error"
	cfg.Routing.AdvertiseInterval = 500 * time.Millisecond
	if listen != "" {
		certPEM, keyPEM, err := transport.GenerateSelfSignedCert("agent-"+name, 24*time.Hour)
		if err != nil {
			return nil, err
		}
		cf, kf := filepath.Join(d, "cert.pem"), filepath.Join(d, "key.pem")
		if err := os.WriteFile(cf, certPEM, 0o600); err != nil {
			return nil, err
		}
		if err := os.WriteFile(kf, keyPEM, 0o600); err != nil {
			return nil, err
		}
		cfg.Listeners = []config.ListenerConfig{{Transport: "quic", Address: listen, TLS: config.TLSConfig{Cert: cf, Key: kf}}}
	}
	for _, p := range peers {
		cfg.Peers = append(cfg.Peers, config.PeerConfig{ID: "auto", Transport: "quic", Address: p, TLS: config.TLSConfig{}})
	}
	return cfg, nil
}

func c04StartMesh() *c04Mesh {
	m := &c04Mesh{}
	fail := func(err error) *c04Mesh { m.startErr = err; return m }
	dir, err := os.MkdirTemp("", "verif-c04-")
	if err != nil {
		return fail(err)
	}
	m.dir = dir
	if m.tcpEcho, err = net.Listen("tcp", "127.0.0.1:0"); err != nil {
		return fail(err)
	}
	go func() {
		for {
			conn, err := m.tcpEcho.Accept()
			if err != nil {
				return
			}
			go func() { defer conn.Close(); io.Copy(conn, conn) }()
		}
	}()
	if m.tcpHang, err = net.Listen("tcp", "127.0.0.1:0"); err != nil {
		return fail(err)
	}
	go func() {
		for {
			conn, err := m.tcpHang.Accept()
			if err != nil {
				return
			}
			go func() { io.CopyN(io.Discard, conn, 20000); conn.Close() }()
		}
	}()
	if m.udpEcho, err = net.ListenPacket("udp", "127.0.0.1:0"); err != nil {
		return fail(err)
	}
	go func() {
		buf := make([]byte, 65535)
		for {
			n, src, err := m.udpEcho.ReadFrom(buf)
			if err != nil {
				return
			}
			m.udpEcho.WriteTo(buf[:n], src)
		}
	}()
	bAddr, err := c04FreeUDPPort()
	if err != nil {
		return fail(err)
	}
	cfgB, err := m.cfg("B", bAddr, nil)
	if err != nil {
		return fail(err)
	}
	cfgA, err := m.cfg("A", "", []string{bAddr})
	if err != nil {
		return fail(err)
	}
	cfgA.SOCKS5.Enabled = true
	cfgA.SOCKS5.Address = "127.0.0.1:0"
	cfgC, err := m.cfg("C", "", []string{bAddr})
	if err != nil {
		return fail(err)
	}
	cfgC.Exit.Enabled = true
	cfgC.Exit.Routes = []string{"0.0.0.0/0"} // CreateUDPAssociation insists on a route covering 0.0.0.0
	cfgC.UDP.Enabled = true
	cfgC.UDP.MaxDatagramSize = 1472
	cfgC.UDP.IdleTimeout = 5 * time.Minute
	cfgC.Forward.Endpoints = []config.ForwardEndpoint{{Key: "verif-echo", Target: m.tcpEcho.Addr().String()}}
	cfgA.Forward.Listeners = []config.ForwardListener{{Key: "verif-echo", Address: "127.0.0.1:0"}}
	for _, c := range []*config.Config{cfgA, cfgC} {
		c.FileTransfer.Enabled = true
		c.FileTransfer.AllowedPaths = []string{"*"}
	}
	cfgC.Shell.Enabled = true
	cfgC.Shell.Whitelist = []string{"*"}
	if m.b, err = agent.New(cfgB); err != nil {
		return fail(err)
	}
	if err = m.b.Start(); err != nil {
		return fail(err)
	}
	// tap before anybody connects to B
	agent.VerifC04Tap(m.b, func(peerID identity.AgentID, f *protocol.Frame) {
		if m.zeroKeys.Load() {
			var zero [protocol.EphemeralKeySize]byte
			switch f.Type {
			case protocol.FrameUDPOpen:
				if o, err := protocol.DecodeUDPOpen(f.Payload); err == nil {
					o.EphemeralPubKey = zero
					f.Payload = o.Encode()
				}
			case protocol.FrameUDPOpenAck:
				if a, err := protocol.DecodeUDPOpenAck(f.Payload); err == nil {
					a.EphemeralPubKey = zero
					f.Payload = a.Encode()
				}
			}
		}
		m.mu.Lock()
		m.log = append(m.log, c04Frame{peerID, f.Type, f.StreamID, append([]byte{}, f.Payload...)})
		m.mu.Unlock()
	})
	if m.c, err = agent.New(cfgC); err != nil {
		return fail(err)
	}
	if err = m.c.Start(); err != nil {
		return fail(err)
	}
	if m.a, err = agent.New(cfgA); err != nil {
		return fail(err)
	}
	if err = m.a.Start(); err != nil {
		return fail(err)
	}
	deadline := time.Now().Add(180 * time.Second) // a healthy mesh converges in ~2 s; only a dead one pays this
	for time.Now().Before(deadline) {
		if m.a.Stats().RouteCount > 0 && m.a.SOCKS5Address() != nil && m.a.LookupForwardRoute("verif-echo") != nil && m.a.ForwardListenerAddress("verif-echo") != nil {
			m.socks = m.a.SOCKS5Address().String()
			m.fwd = m.a.ForwardListenerAddress("verif-echo").String()
			return m
		}
		time.Sleep(100 * time.Millisecond)
	}
	return fail(fmt.Errorf("routes did not converge (A: %d routes)", m.a.Stats().RouteCount))
}

func (m *c04Mesh) socksHandshake() (net.Conn, error) {
	conn, err := net.DialTimeout("tcp", m.socks, 60*time.Second)
	if err != nil {
		return nil, err
	}
	conn.SetDeadline(time.Now().Add(120 * time.Second)) // long deadline: liveness answers must not depend on machine load
	if _, err := conn.Write([]byte{5, 1, 0}); err != nil {
		conn.Close()
		return nil, err
	}
	r := make([]byte, 2)
	if _, err := io.ReadFull(conn, r); err != nil || r[1] != 0 {
		conn.Close()
		return nil, fmt.Errorf("socks5 method negotiation: %v %v", r, err)
	}
	return conn, nil
}

func (m *c04Mesh) socksRequest(conn net.Conn, cmd byte, ip net.IP, port int) ([]byte, error) {
	req := []byte{5, cmd, 0, 1}
	req = append(req, ip.To4()...)
	req = append(req, byte(port>>8), byte(port))
	if _, err := conn.Write(req); err != nil {
		return nil, err
	}
	rep := make([]byte, 10)
	if _, err := io.ReadFull(conn, rep); err != nil {
		return nil, err
	}
	if rep[1] != 0 {
		return nil, fmt.Errorf("socks5 reply code %d", rep[1])
	}
	return rep, nil
}

// grabKeys remembers the session keys of the ingress agent's live streams (the tunnel just opened).
func (m *c04Mesh) grabKeys() {
	for _, k := range agent.VerifC04StreamKeys(m.a) {
		m.realKeys = append(m.realKeys, k)
	}
}

func (m *c04Mesh) tcpclose(payload []byte) (bool, error) {
	for round := 0; round < 3; round++ {
		conn, err := m.socksHandshake()
		if err != nil {
			return false, err
		}
		ta := m.tcpHang.Addr().(*net.TCPAddr)
		if _, err := m.socksRequest(conn, 1, ta.IP, ta.Port); err != nil {
			conn.Close()
			return false, err
		}
		m.grabKeys()
		buf := bytes.Repeat(payload, 65536/len(payload)+1)[:65536]
		conn.SetDeadline(time.Now().Add(10 * time.Second))
		for sent := 0; sent < 4<<20; sent += len(buf) {
			if _, err := conn.Write(buf); err != nil {
				break
			}
		}
		conn.Close()
		time.Sleep(50 * time.Millisecond)
	}
	return true, nil
}

func (m *c04Mesh) tcp(payload []byte) (bool, error) {
	conn, err := m.socksHandshake()
	if err != nil {
		return false, err
	}
	defer conn.Close()
	ta := m.tcpEcho.Addr().(*net.TCPAddr)
	if _, err := m.socksRequest(conn, 1, ta.IP, ta.Port); err != nil {
		return false, err
	}
	m.grabKeys()
	if _, err := conn.Write(payload); err != nil {
		return false, err
	}
	got := make([]byte, len(payload))
	if _, err := io.ReadFull(conn, got); err != nil {
		return false, err
	}
	return bytes.Equal(got, payload), nil
}

func (m *c04Mesh) forward(payload []byte) (bool, error) {
	conn, err := net.DialTimeout("tcp", m.fwd, 60*time.Second)
	if err != nil {
		return false, err
	}
	defer conn.Close()
	conn.SetDeadline(time.Now().Add(120 * time.Second))
	if _, err := conn.Write(payload[:1]); err != nil {
		return false, err
	}
	for i := 0; i < 100 && len(agent.VerifC04StreamKeys(m.a)) == 0; i++ {
		time.Sleep(10 * time.Millisecond) // the forward tunnel opens on the first accepted connection
	}
	m.grabKeys()
	if _, err := conn.Write(payload[1:]); err != nil {
		return false, err
	}
	got := make([]byte, len(payload))
	if _, err := io.ReadFull(conn, got); err != nil {
		return false, err
	}
	return bytes.Equal(got, payload), nil
}

func (m *c04Mesh) file(payload []byte) (bool, error) {
	ctx, cancel := context.WithTimeout(context.Background(), 240*time.Second)
	defer cancel()
	m.seq++
	local := filepath.Join(m.dir, fmt.Sprintf("up-%d.bin", m.seq))
	remote := filepath.Join(m.dir, fmt.Sprintf("remote-%d.bin", m.seq))
	back := filepath.Join(m.dir, fmt.Sprintf("down-%d.bin", m.seq))
	defer os.Remove(local)
	defer os.Remove(remote)
	defer os.Remove(back)
	if err := os.WriteFile(local, payload, 0o600); err != nil {
		return false, err
	}
	if err := m.a.UploadFile(ctx, m.c.ID(), local, remote, health.TransferOptions{}, nil); err != nil {
		return false, fmt.Errorf("upload: %w", err)
	}
	stored, err := os.ReadFile(remote)
	if err != nil || !bytes.Equal(stored, payload) {
		return false, nil
	}
	if err := m.a.DownloadFile(ctx, m.c.ID(), remote, back, health.TransferOptions{}, nil); err != nil {
		return false, fmt.Errorf("download: %w", err)
	}
	got, err := os.ReadFile(back)
	return err == nil && bytes.Equal(got, payload), nil
}

func (m *c04Mesh) shell(marker []byte) (bool, error) {
	ctx, cancel := context.WithTimeout(context.Background(), 120*time.Second)
	defer cancel()
	sess, err := m.a.OpenShellStream(ctx, m.c.ID(), &shell.ShellMeta{Command: "echo", Args: []string{string(marker)}}, false)
	if err != nil {
		return false, err
	}
	defer sess.Close()
	var out []byte
	deadline := time.After(90 * time.Second)
	for {
		select {
		case b, ok := <-sess.Receive:
			if !ok {
				return bytes.Contains(out, marker), nil
			}
			out = append(out, b...)
			if bytes.Contains(out, marker) {
				return true, nil
			}
		case <-sess.Done:
			for {
				select {
				case b := <-sess.Receive:
					out = append(out, b...)
					continue
				default:
				}
				break
			}
			return bytes.Contains(out, marker), nil
		case <-deadline:
			return false, nil
		}
	}
}

func (m *c04Mesh) udp(payload []byte) (bool, error) {
	// UDP may lose datagrams and a loaded machine may answer late: re-send for up to 90 s
	return m.udpTries(payload, 45, 2*time.Second)
}

func (m *c04Mesh) udpTries(payload []byte, tries int, perTry time.Duration) (bool, error) {
	ctl, err := m.socksHandshake()
	if err != nil {
		return false, err
	}
	defer ctl.Close()
	rep, err := m.socksRequest(ctl, 3, net.IPv4zero, 0)
	if err != nil {
		return false, err
	}
	relay := &net.UDPAddr{IP: net.IPv4(rep[4], rep[5], rep[6], rep[7]), Port: int(binary.BigEndian.Uint16(rep[8:10]))}
	if relay.IP.IsUnspecified() {
		relay.IP = net.IPv4(127, 0, 0, 1)
	}
	pc, err := net.DialUDP("udp", nil, relay)
	if err != nil {
		return false, err
	}
	defer pc.Close()
	ua := m.udpEcho.LocalAddr().(*net.UDPAddr)
	hdr := append([]byte{0, 0, 0, 1}, ua.IP.To4()...)
	hdr = append(hdr, byte(ua.Port>>8), byte(ua.Port))
	for try := 0; try < tries; try++ {
		if _, err := pc.Write(append(append([]byte{}, hdr...), payload...)); err != nil {
			return false, err
		}
		pc.SetReadDeadline(time.Now().Add(perTry))
		buf := make([]byte, 65535)
		n, err := pc.Read(buf)
		if err != nil {
			continue
		}
		if n >= 10 && bytes.Equal(buf[10:n], payload) {
			return true, nil
		}
		return false, nil
	}
	return false, fmt.Errorf("no UDP echo")
}

// summarise the tap log of one op
func (m *c04Mesh) summary(kind string, payload []byte, echo bool) string {
	structural := kind == "file" || kind == "shell" // byte counts depend on metadata/compression: report sequence checks only
	zk, ua := 0, 0
	tryOpen := func(key [32]byte, body []byte) bool {
		if len(body) < crypto.EncryptionOverhead {
			return false
		}
		aead, err := chacha20poly1305.New(key[:])
		if err != nil {
			return false
		}
		_, err = aead.Open(nil, body[:crypto.NonceSize], body[crypto.NonceSize:], nil)
		return err == nil
	}
	keyChecks := func(body []byte) {
		if len(body) == 0 {
			return
		}
		var zero [32]byte
		if tryOpen(zero, body) {
			zk++
		}
		if len(m.realKeys) > 0 {
			ok := false
			for _, k := range m.realKeys {
				if tryOpen(k, body) {
					ok = true
					break
				}
			}
			if !ok {
				ua++
			}
		}
	}
	if m.oldStreams == nil {
		m.oldStreams = map[string]bool{}
	}
	skey := func(f c04Frame) string { return fmt.Sprintf("%s/%d", f.peer.String(), f.stream) }
	markOld := func(log []c04Frame) {
		for _, f := range log {
			m.oldStreams[skey(f)] = true
		}
	}
	if kind == "tcpclose" {
		m.mu.Lock()
		n := 0
		for _, f := range m.log {
			if len(payload) >= 8 && bytes.Contains(f.payload, payload) {
				n++
			}
			if f.typ == protocol.FrameStreamData && !m.oldStreams[skey(f)] {
				keyChecks(f.payload)
			}
		}
		markOld(m.log)
		m.log = nil
		m.mu.Unlock()
		return fmt.Sprintf("ok leak %d zk %d ua %d", n, zk, ua)
	}
	if kind == "udpzero" {
		m.mu.Lock()
		n := 0
		for _, f := range m.log {
			if len(payload) >= 8 && bytes.Contains(f.payload, payload) {
				n++
			}
		}
		markOld(m.log)
		m.log = nil
		m.mu.Unlock()
		e := 0
		if echo {
			e = 1
		}
		return fmt.Sprintf("ok echo %d leak %d", e, n)
	}
	m.mu.Lock()
	log := m.log
	m.log = nil
	m.mu.Unlock()
	dataType := uint8(protocol.FrameStreamData)
	if kind == "udp" {
		dataType = protocol.FrameUDPDatagram
	}
	aID, cID := m.a.ID(), m.c.ID()
	leak := 0
	type dirStat struct {
		plain int
		seqOK bool
		sizes map[int]bool
	}
	st := map[identity.AgentID]*dirStat{aID: {seqOK: true, sizes: map[int]bool{}}, cID: {seqOK: true, sizes: map[int]bool{}}}
	defer markOld(log)
	if m.lastCtr == nil {
		m.lastCtr = map[string]uint64{}
	}
	wantPfx := map[identity.AgentID]uint32{aID: 0, cID: 0x80000000}
	for _, f := range log {
		if len(payload) >= 8 && bytes.Contains(f.payload, payload) {
			leak++
		}
		d := st[f.peer]
		if f.typ != dataType || d == nil || m.oldStreams[skey(f)] {
			continue // other frame types; late frames of an earlier op's stream
		}
		body := f.payload
		if kind == "udp" {
			dg, err := protocol.DecodeUDPDatagram(f.payload)
			if err != nil {
				d.seqOK = false
				continue
			}
			body = dg.Data
		}
		if len(body) == 0 {
			continue // bare FIN / empty frame: carries no application byte
		}
		keyChecks(body)
		if len(body) < crypto.EncryptionOverhead {
			d.seqOK = false
			d.plain += len(body)
			continue
		}
		d.plain += len(body) - crypto.EncryptionOverhead
		d.sizes[len(body)-crypto.EncryptionOverhead] = true
		pfx, ctr := binary.BigEndian.Uint32(body[0:4]), binary.BigEndian.Uint64(body[4:12])
		if os.Getenv("VERIF_C04_DEBUG") != "" {
			fmt.Fprintf(os.Stderr, "tap peer=%s stream=%d pfx=%08x ctr=%d len=%d\n", f.peer.ShortString(), f.stream, pfx, ctr, len(body))
		}
		if pfx != wantPfx[f.peer] {
			d.seqOK = false
		}
		key := fmt.Sprintf("%s/%d", f.peer.String(), f.stream)
		if last, seen := m.lastCtr[key]; !seen {
			if ctr != 0 {
				d.seqOK = false
			}
		} else if ctr != last+1 {
			d.seqOK = false
		}
		m.lastCtr[key] = ctr
	}
	b := func(x bool) int {
		if x {
			return 1
		}
		return 0
	}
	if kind == "udp" {
		// the client re-sends until the echo arrives: report the size of ONE datagram when all are alike
		for _, d := range st {
			if len(d.sizes) == 1 {
				for n := range d.sizes {
					d.plain = n
				}
			}
		}
	}
	if structural {
		return fmt.Sprintf("ok echo %d leak %d seq %d %d zk %d ua %d", b(echo), leak, b(st[aID].seqOK), b(st[cID].seqOK), zk, ua)
	}
	return fmt.Sprintf("ok echo %d leak %d up %d %d down %d %d zk %d ua %d", b(echo), leak, st[aID].plain, b(st[aID].seqOK), st[cID].plain, b(st[cID].seqOK), zk, ua)
}

func c04Mesh3(kind string, payload []byte) string {
	c04MeshOnce.Do(func() { c04M = c04StartMesh() })
	m := c04M
	if m.startErr != nil {
		return "mesh-error " + fmt.Sprint(m.startErr)
	}
	time.Sleep(150 * time.Millisecond) // let the previous op's close frames drain
	m.mu.Lock()
	m.log = nil
	m.mu.Unlock()
	m.realKeys = nil
	var echo bool
	var err error
	marker := payload
	switch kind {
	case "tcp":
		echo, err = m.tcp(payload)
	case "udp":
		echo, err = m.udp(payload)
	case "udpzero":
		m.zeroKeys.Store(true)
		echo, err = m.udpTries(payload, 1, 2500*time.Millisecond) // expected answer on a repaired tree is "no echo"
		m.zeroKeys.Store(false)
	case "tcpclose":
		echo, err = m.tcpclose(payload)
	case "fwd":
		echo, err = m.forward(payload)
	case "file":
		echo, err = m.file(payload)
	case "shell":
		marker = []byte(hex.EncodeToString(payload))
		echo, err = m.shell(marker)
	}
	if err != nil && kind != "udpzero" {
		// the tunnel broke: still report what the transit saw (a leak must not hide behind an error)
		fmt.Fprintln(os.Stderr, "c04 mesh", kind, "error:", err)
		echo = false
	}
	if err != nil {
		echo = false
	}
	time.Sleep(100 * time.Millisecond)
	return m.summary(kind, marker, echo)
}

func init() {
	c03Tunnel = c04Mesh3
	c03Handshake = c04hRun
	c03HandshakeGen = func(w *bufio.Writer, r *rng, n int) { c04hGen(w, r, n, false) }
	register("c04", &Engine{
		Run: func(line string) string {
			f := fields(line)
			var peerID identity.AgentID
			switch {
			case f[0] == "seal" && len(f) == 2:
				p := unhexTok(f[1])
				ct, err := c04Session(true).Encrypt(p)
				return c04Sealed(p, ct, err)
			case f[0] == "assoc" && len(f) == 3:
				p := unhexTok(f[2])
				as := udp.NewAssociation(1, 1, peerID)
				defer as.Close()
				if f[1] == "1" || f[1] == "closed" {
					as.SetSessionKey(c04Session(false))
				}
				if f[1] == "closed" {
					as.Close() // what a UDP_CLOSE / idle expiry does while a reply is in hand in readLoop
				}
				ct, err := as.Encrypt(p)
				return c04Sealed(p, ct, err)
			case f[0] == "icmpsess" && len(f) == 3:
				p := unhexTok(f[2])
				s := icmp.NewSession(1, 1, peerID, net.IPv4(127, 0, 0, 1))
				defer s.Close()
				if f[1] == "1" || f[1] == "closed" {
					s.SetSessionKey(c04Session(false))
				}
				if f[1] == "closed" {
					s.Close()
				}
				ct, err := s.Encrypt(p)
				return c04Sealed(p, ct, err)
			case f[0] == "icmpinit" && len(f) == 2:
				priv, pub, err := crypto.GenerateEphemeralKeypair()
				must(err)
				var remote [32]byte
				if f[1] == "honest" {
					_, remote, err = crypto.GenerateEphemeralKeypair()
					must(err)
				}
				sk, err := agent.VerifC04DeriveICMP(&priv, pub, remote, 5)
				switch {
				case err != nil:
					return "err"
				case sk == nil:
					return "nil"
				}
				return "key"
			case f[0] == "respkey" && len(f) == 2:
				var remote [32]byte
				if f[1] == "honest" {
					var err error
					_, remote, err = crypto.GenerateEphemeralKeypair()
					must(err)
				}
				sk, _, err := agent.VerifC04DeriveResponder(5, remote)
				if err != nil || sk == nil {
					return "err"
				}
				return "key"
			case f[0] == "reset":
				return "ok"
			case f[0] == "hs":
				return c04hRun(f)
			case f[0] == "mesh" && len(f) == 3 && (f[1] == "tcp" || f[1] == "udp" || f[1] == "udpzero" || f[1] == "tcpclose" || f[1] == "fwd" || f[1] == "file" || f[1] == "shell"):
				return c04Mesh3(f[1], unhexTok(f[2]))
			}
			return "bad-op"
		},
		Gen: func(w *bufio.Writer, seed int64, tier string) {
			r := newRng(seed)
			h := func(b []byte) string { return hexTok(b) }
			n, meshN := 40, 6
			if tier == "thorough" {
				n, meshN = 600, 60
			}
			for _, sz := range []int{16, 1400} {
				fmt.Fprintf(w, "assoc closed %s\nicmpsess closed %s\n", h(r.bytes(sz)), h(r.bytes(sz)))
			}
			for _, z := range []string{"zero", "honest"} {
				fmt.Fprintf(w, "icmpinit %s\nrespkey %s\n", z, z)
			}
			sizes := []int{0, 1, 7, 8, 16, 32, 100, 1400, 1472, 16384, 40000}
			for i := 0; i < n; i++ {
				p := r.bytes(sizes[r.intn(len(sizes))])
				switch r.intn(5) {
				case 0:
					fmt.Fprintf(w, "seal %s\n", h(p))
				case 1, 2:
					fmt.Fprintf(w, "assoc %d %s\n", r.intn(2), h(p))
				default:
					fmt.Fprintf(w, "icmpsess %d %s\n", r.intn(2), h(p))
				}
			}
			tcpSizes := []int{32, 33, 100, 1000, 16000, 16384, 16385, 40000, 65536}
			udpSizes := []int{32, 33, 100, 512, 1000, 1400}
			if tier == "thorough" {
				tcpSizes = append(tcpSizes, 200000, 1<<20)
			}
			for i := 0; i < meshN; i++ {
				fmt.Fprintf(w, "mesh tcp %s\n", h(r.bytes(tcpSizes[r.intn(len(tcpSizes))])))
				fmt.Fprintf(w, "mesh udp %s\n", h(r.bytes(udpSizes[r.intn(len(udpSizes))])))
				fmt.Fprintf(w, "mesh fwd %s\n", h(r.bytes(tcpSizes[r.intn(len(tcpSizes))])))
				if i%2 == 0 {
					fmt.Fprintf(w, "mesh file %s\n", h(r.bytes(r.pick(32, 1000, 16384, 70000))))
					fmt.Fprintf(w, "mesh shell %s\n", h(r.bytes(r.pick(16, 32, 200))))
				}
			}
			fmt.Fprintf(w, "mesh udpzero %s\n", h(r.bytes(r.pick(32, 100, 1000))))
			closes := 2
			if tier == "thorough" {
				closes = 12
			}
			for i := 0; i < closes; i++ {
				fmt.Fprintf(w, "mesh tcpclose %s\n", h(r.bytes(r.pick(32, 64, 4096))))
			}
			hsN := 1
			if tier == "thorough" {
				hsN = 12
			}
			c04hGen(w, r, hsN, true)
			_ = sort.Ints
		},
		// Facts: what each side does WITHOUT a peer key, probed on the compiled code.
		Facts: func(w *bufio.Writer) {
			var peerID identity.AgentID
			probe := []byte("verif-c04-probe-payload")
			as := udp.NewAssociation(1, 1, peerID)
			ct, err := as.Encrypt(probe)
			as.Close()
			exitUDP := err == nil && bytes.Equal(ct, probe)
			se := icmp.NewSession(1, 1, peerID, net.IPv4(127, 0, 0, 1))
			ct, err = se.Encrypt(probe)
			se.Close()
			exitICMP := err == nil && bytes.Equal(ct, probe)
			priv, pub, kerr := crypto.GenerateEphemeralKeypair()
			must(kerr)
			var zero [32]byte
			sk, derr := agent.VerifC04DeriveICMP(&priv, pub, zero, 5)
			ingress := sk == nil && derr == nil
			b := func(x bool) string {
				if x {
					return "true"
				}
				return "false"
			}
			fmt.Fprintf(w, "-- GENERATED by `harness c04 facts`: probes of the compiled code under %s. Do not edit.\n", c03RepoRoot())
			fmt.Fprintf(w, "namespace MM.Gen.C04\n")
			fmt.Fprintf(w, "/-- agent.deriveICMPSessionKey(zero remote key) returned (nil, nil): the ingress goes on WITHOUT a session key -/\n")
			fmt.Fprintf(w, "def ingressFallsBack : Bool := %s\n", b(ingress))
			fmt.Fprintf(w, "/-- udp.Association.Encrypt / icmp.Session.Encrypt without a session key return their input (udp %v, icmp %v) -/\n", exitUDP, exitICMP)
			fmt.Fprintf(w, "def exitFallsBack : Bool := %s\n", b(exitUDP || exitICMP))
			// a CLOSED association / session (key wiped by Close) still "encrypts" by returning its input
			as2 := udp.NewAssociation(2, 2, peerID)
			as2.SetSessionKey(c04Session(false))
			as2.Close()
			ct, err = as2.Encrypt(probe)
			closedUDP := err == nil && bytes.Equal(ct, probe)
			se2 := icmp.NewSession(2, 2, peerID, net.IPv4(127, 0, 0, 1))
			se2.SetSessionKey(c04Session(false))
			se2.Close()
			ct, err = se2.Encrypt(probe)
			closedICMP := err == nil && bytes.Equal(ct, probe)
			fmt.Fprintf(w, "/-- Encrypt on an association / session that HAD a key and was closed returns its input (udp %v, icmp %v) -/\n", closedUDP, closedICMP)
			fmt.Fprintf(w, "def closedUdpPassThrough : Bool := %s\ndef closedIcmpPassThrough : Bool := %s\n", b(closedUDP), b(closedICMP))
			// the ingress under a replayed UDP_OPEN_ACK: does it re-key from its wiped private key?
			_, _, _, pubN, uiErr := c04UIAck(1)
			fmt.Fprintf(w, "/-- after the SAME UDP_OPEN_ACK is delivered twice the ingress seals under the key anybody can compute from an all-zero private key -/\n")
			fmt.Fprintf(w, "def replayedAckRekeysPublic : Bool := %s\n", b(uiErr == nil && pubN > 0))
			fmt.Fprintf(w, "end MM.Gen.C04\n")
		},
	})
}
