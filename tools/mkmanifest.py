#!/usr/bin/env python3
"""Regenerate /verif/MANIFEST.json from props/C*.py (PROP['manifest']) and not_applicable.json."""
import glob, json, os, subprocess, sys
sys.path.insert(0, os.path.join(os.path.dirname(os.path.abspath(__file__)), "..", "lib"))
import vlib
V = vlib.VERIF
props = sorted(os.path.basename(p)[:-3] for p in glob.glob(os.path.join(V, "props", "C*.py")))
checks, engines = [], {}
for pid in props:
    P = vlib.load_prop(pid).PROP
    if P.get("disabled"):
        continue
    m = P["manifest"]
    checks.append({
        "property_id": pid,
        "quick_cmd": "./check %s --tier quick" % pid,
        "thorough_cmd": "./check %s --tier thorough" % pid,
        "evidence_file": "/verif/evidence/%s.json" % pid,
        "replay_cmd_template": "./check %s --replay {path}" % pid,
        "engine": ",".join(P.get("engines", [])) or "lean-only",
        "level_claimed": {"category": m.get("category", "proof"), "text": m["text"], "design_ref": m.get("design_ref", "DESIGN.md section 5 " + pid)},
        "level_note": m["note"],
        "technique": m.get("technique", "Lean 4 proof + differential correspondence harness"),
    })
    for e in P.get("engines", []):
        engines.setdefault(e, []).append(pid)
claimed = {c["property_id"] for c in checks}
allids = [json.loads(l)["id"] for l in open(os.path.join(V, "properties.jsonl")) if l.strip()]
na_reasons = json.load(open(os.path.join(V, "not_applicable.json")))
na = []
for i in allids:
    if i not in claimed:
        na.append({"property_id": i, "reason": na_reasons.get(i, "machinery for this property is not built yet (time); no claim is made")})
hooks_commits = []
try:
    hooks_commits = json.load(open(os.path.join(V, "hooks.json")))["source_commits"]
except OSError:
    pass
man = {
    "version": 1,
    "setup_cmd": "python3 tools/setup.py",
    "hooks": {
        "guard": "verif",
        "enable": "cd /repo && GOFLAGS=-mod=mod GOPROXY=off go build -tags verif,all -overlay /verif/build/overlay.json ./cmd/zz_verifharness  (overlay only ADDS files: harness main package + in-package accessors; scheduling hooks in /repo are //go:build verif)",
        "baseline_off_cmd": "python3 /verif/tools/baseline.py",
        "source_commits": hooks_commits,
        "add_only": True,
    },
    "engines": [{"name": e, "path": "/verif/harness/main/eng_%s.go + /verif/lean/MM/Engine/%s.lean" % (e, e.upper()), "serves_properties": ps, "kind_free_text": "differential line-protocol engine: real Go code vs compiled Lean model"} for e, ps in sorted(engines.items())],
    "checks": checks,
    "not_applicable": na,
    "notes": "Every check = Lean theorems (lake build + #print axioms audit) + tie to /repo (regenerated facts, differential run of the real code against the compiled Lean model) + failing-input search. See DESIGN.md.",
}
json.dump(man, open(os.path.join(V, "MANIFEST.json"), "w"), indent=1)
agg = {"_comment": "GENERATED INDEX of known/*.json (the committed per-property files the checks read; never written at run time). status=open: genuine defect recorded, not repaired - the check prints KNOWN-FINDING and exits 0 while exactly that witness/signature fails. status=fixed: repaired by the named fix: commit; suppresses nothing - the witness is replayed on every run and a failure is a VIOLATION.", "fixed_log": [], "findings": []}
for f in sorted(glob.glob(os.path.join(V, "known", "*.json"))):
    k = json.load(open(f))
    agg["fixed_log"] += k.get("fixed_log", [])
    agg["findings"] += k.get("findings", [])
json.dump(agg, open(os.path.join(V, "known_findings.json"), "w"), indent=1)
print("MANIFEST.json: %d checks, %d not_applicable" % (len(checks), len(na)))
