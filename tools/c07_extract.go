// c07_extract: source-level facts for property C07 (frames within the payload limit, exact
// re-assembly). Run offline with cwd = the repository under examination:
//
//	go run /verif/tools/c07_extract.go
//
// It parses the Go sources with go/parser, locates — in each data path's sender function — the
// expression that bounds how many stream bytes go into one sealed message (the `make([]byte, N)`
// read buffer, or the chunk step of a slicing loop), evaluates it with the package constants
// it refers to, and prints Lean source (MM/Gen/C07Ast.lean). If a function or the expected shape
// is not found it exits non-zero: the tie is broken and the check fails rather than guessing.
package main

import (
	"fmt"
	"go/ast"
	"go/parser"
	"go/token"
	"os"
	"path/filepath"
	"strconv"
	"strings"
)

const modPath = "github.com/postalsys/muti-metroo/"

var fset = token.NewFileSet()

func die(format string, a ...any) {
	fmt.Fprintf(os.Stderr, "c07_extract: "+format+"\n", a...)
	os.Exit(1)
}

// pkgConsts: package directory -> const name -> defining expression (with the file it is in).
type constDef struct {
	expr ast.Expr
	file *ast.File
	dir  string
}

var pkgCache = map[string]map[string]constDef{}

func loadConsts(dir string) map[string]constDef {
	if m, ok := pkgCache[dir]; ok {
		return m
	}
	m := map[string]constDef{}
	pkgs, err := parser.ParseDir(fset, dir, func(fi os.FileInfo) bool { return !strings.HasSuffix(fi.Name(), "_test.go") }, 0)
	if err != nil {
		die("parse %s: %v", dir, err)
	}
	for _, p := range pkgs {
		for _, f := range p.Files {
			for _, d := range f.Decls {
				gd, ok := d.(*ast.GenDecl)
				if !ok || gd.Tok != token.CONST {
					continue
				}
				for _, s := range gd.Specs {
					vs := s.(*ast.ValueSpec)
					for i, n := range vs.Names {
						if i < len(vs.Values) {
							m[n.Name] = constDef{vs.Values[i], f, dir}
						}
					}
				}
			}
		}
	}
	pkgCache[dir] = m
	return m
}

// importDir maps a package qualifier used in file f to the directory of an in-module package.
func importDir(f *ast.File, qual string) string {
	for _, im := range f.Imports {
		p, _ := strconv.Unquote(im.Path.Value)
		name := filepath.Base(p)
		if im.Name != nil {
			name = im.Name.Name
		}
		if name == qual {
			if !strings.HasPrefix(p, modPath) {
				die("qualifier %s is %s, not a package of this module", qual, p)
			}
			return strings.TrimPrefix(p, modPath)
		}
	}
	die("qualifier %s not imported", qual)
	return ""
}

type scope struct {
	file   *ast.File
	dir    string
	locals map[string]ast.Expr // single-assignment locals of the enclosing function
	depth  int
}

func eval(e ast.Expr, sc scope) int64 {
	if sc.depth > 40 {
		die("expression too deep")
	}
	sc.depth++
	switch x := e.(type) {
	case *ast.BasicLit:
		if x.Kind != token.INT {
			die("non-integer literal %s", x.Value)
		}
		v, err := strconv.ParseInt(x.Value, 0, 64)
		if err != nil {
			die("bad literal %s", x.Value)
		}
		return v
	case *ast.ParenExpr:
		return eval(x.X, sc)
	case *ast.BinaryExpr:
		a, b := eval(x.X, sc), eval(x.Y, sc)
		switch x.Op {
		case token.ADD:
			return a + b
		case token.SUB:
			return a - b
		case token.MUL:
			return a * b
		case token.QUO:
			if b == 0 {
				die("division by zero")
			}
			return a / b
		case token.SHL:
			return a << uint(b)
		}
		die("unsupported operator %s", x.Op)
	case *ast.Ident:
		if l, ok := sc.locals[x.Name]; ok {
			return eval(l, sc)
		}
		if c, ok := loadConsts(sc.dir)[x.Name]; ok {
			return eval(c.expr, scope{file: c.file, dir: c.dir, depth: sc.depth})
		}
		die("identifier %s is neither a local of the function nor a constant of %s", x.Name, sc.dir)
	case *ast.SelectorExpr:
		q, ok := x.X.(*ast.Ident)
		if !ok {
			die("unsupported selector")
		}
		dir := importDir(sc.file, q.Name)
		c, ok := loadConsts(dir)[x.Sel.Name]
		if !ok {
			die("%s.%s is not a constant of %s", q.Name, x.Sel.Name, dir)
		}
		return eval(c.expr, scope{file: c.file, dir: c.dir, depth: sc.depth})
	}
	die("unsupported expression %T", e)
	return 0
}

func exprString(e ast.Expr) string {
	switch x := e.(type) {
	case *ast.BasicLit:
		return x.Value
	case *ast.ParenExpr:
		return "(" + exprString(x.X) + ")"
	case *ast.BinaryExpr:
		return exprString(x.X) + x.Op.String() + exprString(x.Y)
	case *ast.Ident:
		return x.Name
	case *ast.SelectorExpr:
		return exprString(x.X) + "." + x.Sel.Name
	}
	return "?"
}

// findFunc returns the declaration of func (recv) name in file path.
func findFunc(path, recv, name string) (*ast.File, *ast.FuncDecl) {
	f, err := parser.ParseFile(fset, path, nil, 0)
	if err != nil {
		die("parse %s: %v", path, err)
	}
	for _, d := range f.Decls {
		fd, ok := d.(*ast.FuncDecl)
		if !ok || fd.Name.Name != name || fd.Body == nil {
			continue
		}
		r := ""
		if fd.Recv != nil && len(fd.Recv.List) == 1 {
			t := fd.Recv.List[0].Type
			if s, ok := t.(*ast.StarExpr); ok {
				t = s.X
			}
			if id, ok := t.(*ast.Ident); ok {
				r = id.Name
			}
		}
		if r == recv {
			return f, fd
		}
	}
	die("%s: func (%s) %s not found", path, recv, name)
	return nil, nil
}

// locals collects `x := expr` definitions (one value, defined exactly once) of a function.
func localsOf(fd *ast.FuncDecl) map[string]ast.Expr {
	count := map[string]int{}
	val := map[string]ast.Expr{}
	ast.Inspect(fd.Body, func(n ast.Node) bool {
		as, ok := n.(*ast.AssignStmt)
		if !ok {
			return true
		}
		for i, l := range as.Lhs {
			id, ok := l.(*ast.Ident)
			if !ok {
				continue
			}
			count[id.Name]++
			if as.Tok == token.DEFINE && len(as.Lhs) == len(as.Rhs) {
				val[id.Name] = as.Rhs[i]
			}
		}
		return true
	})
	out := map[string]ast.Expr{}
	for k, v := range val {
		if count[k] == 1 {
			out[k] = v
		}
	}
	return out
}

// readBuf: the function must contain exactly one `<v> := make([]byte, N)` whose variable is then
// passed to a `.Read(<v>)` call; returns N.
func readBuf(path, recv, name string) (int64, string) {
	f, fd := findFunc(path, recv, name)
	loc := localsOf(fd)
	var found []struct {
		v string
		n ast.Expr
	}
	ast.Inspect(fd.Body, func(n ast.Node) bool {
		as, ok := n.(*ast.AssignStmt)
		if !ok || as.Tok != token.DEFINE || len(as.Lhs) != 1 || len(as.Rhs) != 1 {
			return true
		}
		call, ok := as.Rhs[0].(*ast.CallExpr)
		if !ok || len(call.Args) != 2 {
			return true
		}
		if fn, ok := call.Fun.(*ast.Ident); !ok || fn.Name != "make" {
			return true
		}
		at, ok := call.Args[0].(*ast.ArrayType)
		if !ok || at.Len != nil {
			return true
		}
		if el, ok := at.Elt.(*ast.Ident); !ok || el.Name != "byte" {
			return true
		}
		found = append(found, struct {
			v string
			n ast.Expr
		}{as.Lhs[0].(*ast.Ident).Name, call.Args[1]})
		return true
	})
	if len(found) != 1 {
		die("%s %s.%s: expected exactly one make([]byte, N), found %d", path, recv, name, len(found))
	}
	v := found[0].v
	used := false
	ast.Inspect(fd.Body, func(n ast.Node) bool {
		call, ok := n.(*ast.CallExpr)
		if !ok || len(call.Args) != 1 {
			return true
		}
		sel, ok := call.Fun.(*ast.SelectorExpr)
		if !ok || sel.Sel.Name != "Read" {
			return true
		}
		if id, ok := call.Args[0].(*ast.Ident); ok && id.Name == v {
			used = true
		}
		return true
	})
	if !used {
		die("%s %s.%s: buffer %s is not what Read fills", path, recv, name, v)
	}
	// the buffer must not be re-sliced larger / replaced: single definition
	if _, ok := loc[v]; !ok {
		die("%s %s.%s: buffer %s assigned more than once", path, recv, name, v)
	}
	return eval(found[0].n, scope{file: f, dir: filepath.Dir(path), locals: loc}), exprString(found[0].n)
}

// chunkStep: the function must contain `end := offset + STEP` inside a `for offset := 0; offset < len(x);` loop; returns STEP.
func chunkStep(path, recv, name string) (int64, string) {
	f, fd := findFunc(path, recv, name)
	loc := localsOf(fd)
	var steps []ast.Expr
	ast.Inspect(fd.Body, func(n ast.Node) bool {
		fs, ok := n.(*ast.ForStmt)
		if !ok || fs.Init == nil {
			return true
		}
		ini, ok := fs.Init.(*ast.AssignStmt)
		if !ok || len(ini.Lhs) != 1 {
			return true
		}
		iv, ok := ini.Lhs[0].(*ast.Ident)
		if !ok {
			return true
		}
		for _, st := range fs.Body.List {
			as, ok := st.(*ast.AssignStmt)
			if !ok || as.Tok != token.DEFINE || len(as.Lhs) != 1 || len(as.Rhs) != 1 {
				continue
			}
			if id, ok := as.Lhs[0].(*ast.Ident); !ok || id.Name != "end" {
				continue
			}
			// offset + S1 [+ S2 ...]: peel the loop variable off the left end of the sum
			var terms []ast.Expr
			cur := as.Rhs[0]
			for {
				be, ok := cur.(*ast.BinaryExpr)
				if !ok || be.Op != token.ADD {
					break
				}
				terms = append([]ast.Expr{be.Y}, terms...)
				cur = be.X
			}
			if l, ok := cur.(*ast.Ident); !ok || l.Name != iv.Name || len(terms) == 0 {
				continue
			}
			step := terms[0]
			for _, t := range terms[1:] {
				step = &ast.BinaryExpr{X: step, Op: token.ADD, Y: t}
			}
			steps = append(steps, step)
		}
		return true
	})
	if len(steps) != 1 {
		die("%s %s.%s: expected exactly one `end := offset + STEP` chunk loop, found %d", path, recv, name, len(steps))
	}
	return eval(steps[0], scope{file: f, dir: filepath.Dir(path), locals: loc}), exprString(steps[0])
}

// callArg: the function must contain exactly one call `<qual>.<fn>(..)`; returns its idx-th argument.
func callArg(path, recv, name, qual, fn string, idx int) (int64, string) {
	f, fd := findFunc(path, recv, name)
	loc := localsOf(fd)
	var args []ast.Expr
	ast.Inspect(fd.Body, func(n ast.Node) bool {
		call, ok := n.(*ast.CallExpr)
		if !ok || len(call.Args) <= idx {
			return true
		}
		sel, ok := call.Fun.(*ast.SelectorExpr)
		if !ok || sel.Sel.Name != fn {
			return true
		}
		if q, ok := sel.X.(*ast.Ident); !ok || q.Name != qual {
			return true
		}
		args = append(args, call.Args[idx])
		return true
	})
	if len(args) != 1 {
		die("%s %s.%s: expected exactly one call of %s.%s, found %d", path, recv, name, qual, fn, len(args))
	}
	return eval(args[0], scope{file: f, dir: filepath.Dir(path), locals: loc}), exprString(args[0])
}

func main() {
	type item struct {
		lean, path, recv, fn, kind string
	}
	items := []item{
		{"tcpBuf", "internal/agent/agent.go", "meshConn", "Write", "step"},
		{"rechunk", "internal/agent/agent.go", "Agent", "WriteStreamData", "step"},
		{"exitBuf", "internal/exit/handler.go", "Handler", "readLoop", "buf"},
		{"fwdBuf", "internal/forward/handler.go", "Handler", "readLoop", "buf"},
		{"shoutBuf", "internal/shell/handler.go", "Handler", "pumpOutput", "buf"},
		{"shptyBuf", "internal/shell/handler.go", "Handler", "pumpPTYOutput", "buf"},
		{"shinClientBuf", "internal/shell/client.go", "Client", "pumpStdin", "buf"},
		{"shinMsgMax", "internal/agent/agent.go", "Agent", "forwardShellClientData", "splitarg"},
		{"fupBuf", "internal/agent/agent.go", "Agent", "streamFileContent", "buf"},
		{"fdownBuf", "internal/agent/agent.go", "Agent", "sendFileDownload", "buf"},
	}
	var sb strings.Builder
	sb.WriteString("-- GENERATED by /verif/tools/c07_extract.go from the Go sources (go/parser). Do not edit.\n")
	sb.WriteString("namespace MM.Gen.C07Ast\n")
	for _, it := range items {
		var v int64
		var src string
		if it.kind == "buf" {
			v, src = readBuf(it.path, it.recv, it.fn)
		} else if it.kind == "splitarg" {
			v, src = callArg(it.path, it.recv, it.fn, "shell", "SplitStdin", 1)
		} else {
			v, src = chunkStep(it.path, it.recv, it.fn)
		}
		if v < 0 {
			die("%s: negative size %d", it.lean, v)
		}
		fmt.Fprintf(&sb, "/-- %s (%s).%s: `%s` -/\ndef %s : Nat := %d\n", it.path, it.recv, it.fn, src, it.lean, v)
	}
	// pumpStdout / pumpStderr share pumpOutput: make sure they still do.
	for _, w := range []string{"pumpStdout", "pumpStderr"} {
		_, fd := findFunc("internal/shell/handler.go", "Handler", w)
		calls := false
		ast.Inspect(fd.Body, func(n ast.Node) bool {
			if c, ok := n.(*ast.CallExpr); ok {
				if s, ok := c.Fun.(*ast.SelectorExpr); ok && s.Sel.Name == "pumpOutput" {
					calls = true
				}
			}
			return true
		})
		if !calls {
			die("%s no longer delegates to pumpOutput", w)
		}
	}
	// Atomic step of the shell senders: several goroutines write on ONE shell stream (stdout pump, stderr pump,
	// sendExit, sendAck); each sealed message takes the next nonce and the receiver rejects a frame that arrives
	// after a later one. So in writeEncrypted the Encrypt call and the WriteStreamData call must both happen
	// inside ONE critical section of ss.writeMu (Lock + deferred Unlock, nothing released in between).
	{
		_, fd := findFunc("internal/shell/handler.go", "Handler", "writeEncrypted")
		isMu := func(e ast.Expr, method string) bool {
			c, ok := e.(*ast.CallExpr)
			if !ok {
				return false
			}
			s, ok := c.Fun.(*ast.SelectorExpr)
			if !ok || s.Sel.Name != method {
				return false
			}
			in, ok := s.X.(*ast.SelectorExpr)
			return ok && in.Sel.Name == "writeMu"
		}
		held, deferred := false, false
		locks, sealHeld, sendHeld, seals, sends := 0, 0, 0, 0, 0
		for _, st := range fd.Body.List {
			if es, ok := st.(*ast.ExprStmt); ok && isMu(es.X, "Lock") {
				held = true
				locks++
				continue
			}
			if es, ok := st.(*ast.ExprStmt); ok && isMu(es.X, "Unlock") {
				held = false
				continue
			}
			if ds, ok := st.(*ast.DeferStmt); ok && isMu(ds.Call, "Unlock") {
				deferred = true
				continue
			}
			ast.Inspect(st, func(n ast.Node) bool {
				if _, ok := n.(*ast.FuncLit); ok {
					return false
				}
				c, ok := n.(*ast.CallExpr)
				if !ok {
					return true
				}
				if isMu(c, "Unlock") { // released inside a nested block
					held = false
				}
				if s, ok := c.Fun.(*ast.SelectorExpr); ok {
					switch s.Sel.Name {
					case "Encrypt":
						seals++
						if held {
							sealHeld++
						}
					case "WriteStreamData":
						sends++
						if held {
							sendHeld++
						}
					}
				}
				return true
			})
		}
		one := locks == 1 && deferred && seals == 1 && sends == 1 && sealHeld == 1 && sendHeld == 1
		fmt.Fprintf(&sb, "/-- internal/shell/handler.go (Handler).writeEncrypted: ss.writeMu acquisitions, Encrypt calls (under the lock), WriteStreamData calls (under the lock) -/\n")
		fmt.Fprintf(&sb, "def shellWriteLocks : Nat := %d\ndef shellSealCalls : Nat := %d\ndef shellSealUnderLock : Nat := %d\ndef shellSendCalls : Nat := %d\ndef shellSendUnderLock : Nat := %d\n",
			locks, seals, sealHeld, sends, sendHeld)
		fmt.Fprintf(&sb, "/-- Encrypt and WriteStreamData of one shell message happen inside ONE critical section of ss.writeMu -/\ndef shellSealAndSendAtomic : Bool := %v\n", one)
	}
	sb.WriteString("end MM.Gen.C07Ast\n")
	fmt.Print(sb.String())
}
