#!/usr/bin/env python3
"""Run every enabled check (or the ones named) in parallel; print a one-line summary each.
usage: tools/runall.py [-j N] [--tier quick|thorough] [ids...]   (honours VERIF_REPO / VERIF_SEED)"""
import glob, os, subprocess, sys, time
from concurrent.futures import ThreadPoolExecutor
sys.path.insert(0, os.path.join(os.path.dirname(os.path.abspath(__file__)), "..", "lib"))
import vlib
a = sys.argv[1:]; j = 6; tier = "quick"; ids = []
i = 0
while i < len(a):
    if a[i] == "-j": j = int(a[i+1]); i += 2
    elif a[i] == "--tier": tier = a[i+1]; i += 2
    else: ids.append(a[i]); i += 1
if not ids:
    for p in sorted(glob.glob(os.path.join(vlib.VERIF, "props", "C*.py"))):
        pid = os.path.basename(p)[:-3]
        if not vlib.load_prop(pid).PROP.get("disabled"):
            ids.append(pid)
def one(pid):
    t = time.time()
    r = subprocess.run([os.path.join(vlib.VERIF, "check"), pid, "--tier", tier], stdout=subprocess.PIPE, stderr=subprocess.PIPE, text=True, cwd=vlib.VERIF)
    lines = [l for l in r.stdout.split("\n") if l.startswith(("OK", "VIOLATION", "KNOWN-FINDING"))]
    return pid, r.returncode, time.time() - t, lines, r.stderr[-600:]
bad = 0
with ThreadPoolExecutor(j) as ex:
    for pid, rc, dt, lines, err in ex.map(one, ids):
        print("%s rc=%d %.0fs %s" % (pid, rc, dt, " || ".join(lines)[:400]), flush=True)
        if rc != 0:
            bad += 1
            print("   stderr:", err.replace("\n", "\n   "))
print("done: %d checks, %d non-zero" % (len(ids), bad))
sys.exit(1 if bad else 0)
