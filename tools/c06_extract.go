// c06_extract: source-level facts for property C06 (route announcements arrive intact).
// Run offline with cwd = the repository under examination:
//
//	go run /verif/tools/c06_extract.go
//
// It parses internal/flood/flood.go with go/parser and prints Lean source (MM/Gen/C06.lean):
// the two constants that bound one ROUTE_ADVERTISE (maxRoutesPerAdvertise, advertiseHeadroom),
// the shape of advertiseBudget (MaxPayloadSize - advertiseHeadroom - len(<empty>.Encode())), the
// two tests of the splitRoutes loop, and whether AnnounceLocalRoutes, SendFullTable and
// WithdrawLocalRoutes send through splitRoutes. If a constant or function is missing, or a shape is not the expected
// one, it exits non-zero: the tie is broken and the check fails rather than guessing.
package main

import (
	"bytes"
	"fmt"
	"go/ast"
	"go/parser"
	"go/printer"
	"go/token"
	"os"
	"strconv"
	"strings"
)

func die(format string, a ...any) {
	fmt.Fprintf(os.Stderr, "c06_extract: "+format+"\n", a...)
	os.Exit(1)
}

func main() {
	fset := token.NewFileSet()
	const path = "internal/flood/flood.go"
	f, err := parser.ParseFile(fset, path, nil, 0)
	if err != nil {
		die("parse %s: %v", path, err)
	}
	src := func(n ast.Node) string {
		var b bytes.Buffer
		printer.Fprint(&b, fset, n)
		return strings.Join(strings.Fields(b.String()), " ")
	}
	consts := map[string]int{}
	funcs := map[string]*ast.FuncDecl{}
	for _, d := range f.Decls {
		switch d := d.(type) {
		case *ast.GenDecl:
			if d.Tok != token.CONST {
				continue
			}
			for _, s := range d.Specs {
				vs := s.(*ast.ValueSpec)
				for i, n := range vs.Names {
					if i < len(vs.Values) {
						if lit, ok := vs.Values[i].(*ast.BasicLit); ok && lit.Kind == token.INT {
							v, err := strconv.Atoi(lit.Value)
							if err == nil {
								consts[n.Name] = v
							}
						}
					}
				}
			}
		case *ast.FuncDecl:
			funcs[d.Name.Name] = d
		}
	}
	need := func(name string) int {
		v, ok := consts[name]
		if !ok {
			die("constant %s not found in %s (is fixes/C06-advertise-chunking.patch applied?)", name, path)
		}
		return v
	}
	maxRoutes, headroom := need("maxRoutesPerAdvertise"), need("advertiseHeadroom")

	fn := func(name string) *ast.FuncDecl {
		d, ok := funcs[name]
		if !ok {
			die("function %s not found in %s", name, path)
		}
		return d
	}
	// advertiseBudget: a single return of MaxPayloadSize - advertiseHeadroom - len(empty.Encode())
	budgetOK := false
	ast.Inspect(fn("advertiseBudget"), func(n ast.Node) bool {
		if r, ok := n.(*ast.ReturnStmt); ok && len(r.Results) == 1 {
			if src(r.Results[0]) == "protocol.MaxPayloadSize - advertiseHeadroom - len(empty.Encode())" {
				budgetOK = true
			}
		}
		return true
	})
	if !budgetOK {
		die("advertiseBudget does not return protocol.MaxPayloadSize - advertiseHeadroom - len(empty.Encode())")
	}
	// splitRoutes: the group is closed when i > start && (i-start >= maxRoutesPerAdvertise || size+n > budget),
	// with n := 4 + len(r.Prefix)
	splitCond, splitSize := false, false
	ast.Inspect(fn("splitRoutes"), func(n ast.Node) bool {
		switch n := n.(type) {
		case *ast.IfStmt:
			if src(n.Cond) == "i > start && (i-start >= maxRoutesPerAdvertise || size+n > budget)" {
				splitCond = true
			}
		case *ast.AssignStmt:
			if src(n) == "n := 4 + len(r.Prefix)" {
				splitSize = true
			}
		}
		return true
	})
	if !splitCond || !splitSize {
		die("splitRoutes: expected `n := 4 + len(r.Prefix)` and `if i > start && (i-start >= maxRoutesPerAdvertise || size+n > budget)`")
	}
	// both senders range over splitRoutes(routes, advertiseBudget(&base)) and encode each group
	usesSplit := func(name string) bool {
		found := false
		ast.Inspect(fn(name), func(n ast.Node) bool {
			if r, ok := n.(*ast.RangeStmt); ok && src(r.X) == "splitRoutes(routes, advertiseBudget(&base))" {
				found = true
			}
			return true
		})
		return found
	}
	for _, name := range []string{"AnnounceLocalRoutes", "SendFullTable"} {
		if !usesSplit(name) {
			die("%s does not send through splitRoutes(routes, advertiseBudget(&base))", name)
		}
	}
	// WithdrawLocalRoutes: budget := MaxPayloadSize - advertiseHeadroom - len(base.Encode()); range splitRoutes(routes, budget)
	wdBudget, wdRange := false, false
	ast.Inspect(fn("WithdrawLocalRoutes"), func(n ast.Node) bool {
		switch n := n.(type) {
		case *ast.AssignStmt:
			if src(n) == "budget := protocol.MaxPayloadSize - advertiseHeadroom - len(base.Encode())" {
				wdBudget = true
			}
		case *ast.RangeStmt:
			if src(n.X) == "splitRoutes(routes, budget)" {
				wdRange = true
			}
		}
		return true
	})
	if !wdBudget || !wdRange {
		die("WithdrawLocalRoutes does not send through splitRoutes(routes, budget) with budget := protocol.MaxPayloadSize - advertiseHeadroom - len(base.Encode()) (is fixes/C06-withdraw-chunking.patch applied?)")
	}
	fmt.Printf("-- GENERATED from %s by /verif/tools/c06_extract.go (go/parser). Do not edit.\n", path)
	fmt.Printf("namespace MM.Gen.C06\n")
	fmt.Printf("def maxRoutesPerAdvertise : Nat := %d\n", maxRoutes)
	fmt.Printf("def advertiseHeadroom : Nat := %d\n", headroom)
	fmt.Printf("def budgetIsPayloadMinusHeadroomMinusFixed : Bool := true\n")
	fmt.Printf("def splitClosesGroupOnCountOrSize : Bool := true\n")
	fmt.Printf("def announceAndFullTableSplit : Bool := true\n")
	fmt.Printf("def withdrawSplits : Bool := true\n")
	fmt.Printf("end MM.Gen.C06\n")
}
