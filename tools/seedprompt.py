import json,sys
pid=sys.argv[1]
for l in open('/verif/properties.jsonl'):
    p=json.loads(l)
    if p['id']==pid: break
files=", ".join(p['anchors']['files'])
print(f'''You are testing a Go project by seeding realistic bugs. Work ONLY inside the git worktree /tmp/seed_{pid} (a checkout of the project postalsys/Muti-Metroo, a userspace mesh tunnelling agent in Go: custom binary frame protocol, flood-based route propagation, multi-hop stream relay, SOCKS5 ingress, X25519/ChaCha20 end-to-end encryption). Do not read or write anything under /verif or /repo. No network is available; use `export GOFLAGS=-mod=mod GOPROXY=off` for every go command (do not set GOSUMDB).

Property of the project that should always hold — "{p['title']}":
"{p['statement']}"
Quantified over: {p['quantifier']['text']}
(The relevant code is mainly in: {files}.)

Task: produce TWO different, independent changes to the project source (non-test .go files only) each of which breaks this property while the project still compiles (`go build ./...`) and the existing tests of the affected packages still pass (`go test ./internal/<pkg>/...` for every package you touched and its direct users; a few tests in internal/filetransfer and the ICMP tests in internal/integration fail in this sandbox even on the untouched tree — ignore exactly those). Aim for changes that look like plausible refactors/optimisations/bug-fixes a developer could make, and that need something specific to manifest — a particular interleaving, a crash or fault at a particular point, a multi-step sequence of operations, an unusual input or boundary value, or two cooperating sites that each look fine alone — NOT ones that ordinary use or the existing tests would expose at once. Make the two changes different in kind (different code sites / different trigger conditions).

For each change i = 1, 2 create directory /tmp/seed_out/{pid}/<i>/ containing:
- patch.diff — `git diff` of the change against the worktree's HEAD (non-test source files only),
- a demonstration (demo_test.go, or demo/main.go) that FAILS (or prints the violation and exits non-zero) with the change applied and PASSES without it; say in meta where it must be copied to run,
- meta.json — {{"breaks": "{pid}", "summary": "...", "needs_to_manifest": "...", "how_to_run_demo": "...", "ran": ["commands you ran and their outcomes"]}}.
Verify all of it yourself: with the patch applied, build + the affected packages' tests pass and the demo fails; with the patch reverted (`git checkout -- . && git clean -fd`) the demo passes. Leave the worktree clean (no patch applied, no demo files) when done. Final message: a short description of the two changes.''')
