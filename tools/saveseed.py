#!/usr/bin/env python3
"""tools/saveseed.py <src dir> <seed name e.g. C27-1> <verdict: caught|missed|...> <free text>"""
import json, os, shutil, sys
src, name, verdict, text = sys.argv[1:5]
V = os.path.dirname(os.path.dirname(os.path.abspath(__file__)))
dst = os.path.join(V, "seeded", name)
os.makedirs(dst, exist_ok=True)
for f in os.listdir(src):
    p = os.path.join(src, f)
    if os.path.isfile(p):
        shutil.copy2(p, dst)
    elif os.path.isdir(p):
        shutil.copytree(p, os.path.join(dst, f), dirs_exist_ok=True)
mp = os.path.join(dst, "meta.json")
try:
    m = json.load(open(mp))
except Exception:
    m = {}
m["confirmed_by_lead"] = {"verdict": verdict, "detail": text, "ran": "tools/seedtest.py <patch> <ids> (scratch worktree of /repo HEAD + VERIF_REPO); the seeding agent (given only the property text and its own worktree) verified: build + affected packages' tests pass with the patch, demo fails with it and passes without"}
json.dump(m, open(mp, "w"), indent=1)
print("saved", dst)
