#!/usr/bin/env python3
"""Run every seeded change against the check(s) of the property it breaks (plus extra ids listed in
meta.json 'also_check'); write seeded/RESULTS.json and update meta.json confirmed_by_lead.now.
usage: tools/seedsweep.py [-j N] [names...]"""
import glob, json, os, subprocess, sys
from concurrent.futures import ThreadPoolExecutor
V = os.path.dirname(os.path.dirname(os.path.abspath(__file__)))
a = sys.argv[1:]; j = 5; names = []
i = 0
while i < len(a):
    if a[i] == "-j": j = int(a[i+1]); i += 2
    else: names.append(a[i]); i += 1
dirs = sorted(glob.glob(os.path.join(V, "seeded", "C*-*")))
if names:
    dirs = [d for d in dirs if os.path.basename(d) in names]
ALSO = {"C18-2": ["C16", "C17"], "C26-2": ["C27"], "C07-5": ["C22"], "C18-3": ["C07"]}
def one(d):
    name = os.path.basename(d)
    pid = name.split("-")[0]
    ids = [pid] + ALSO.get(name, [])
    try:
        r = subprocess.run([sys.executable, os.path.join(V, "tools", "seedtest.py"), os.path.join(d, "patch.diff")] + ids, stdout=subprocess.PIPE, stderr=subprocess.STDOUT, text=True, timeout=2400)
        out = r.stdout
    except subprocess.TimeoutExpired:
        out = "TIMEOUT"
    res = {}
    for line in out.split("\n"):
        if " rc=" in line:
            p = line.split(" ")[0]
            rc = line.split("rc=")[1].split(" ")[0]
            res[p] = {"rc": rc, "input": ("VIOLATION" in line and "no-failing-input-found" not in line)}
    caught = [p for p, v in res.items() if v["rc"] == "1"]
    verdict = "caught by " + ",".join(caught) + (" (with failing input)" if any(res[p]["input"] for p in caught) else " (no failing input)") if caught else ("NOT caught" if res else "no verdict: " + out[-200:])
    return name, verdict, res
results = {}
with ThreadPoolExecutor(j) as ex:
    for name, verdict, res in ex.map(one, dirs):
        print(name, verdict, flush=True)
        results[name] = {"verdict": verdict, "checks": res}
        mp = os.path.join(V, "seeded", name, "meta.json")
        try:
            m = json.load(open(mp)); m.setdefault("confirmed_by_lead", {})["now"] = verdict
            json.dump(m, open(mp, "w"), indent=1)
        except Exception:
            pass
old = {}
rp = os.path.join(V, "seeded", "RESULTS.json")
if os.path.exists(rp):
    old = json.load(open(rp))
old.update(results)
json.dump(old, open(rp, "w"), indent=1)
n = len(results); c = sum(1 for v in results.values() if v["verdict"].startswith("caught"))
print("sweep: %d seeded changes, %d caught" % (n, c))
