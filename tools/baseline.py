#!/usr/bin/env python3
"""hooks.baseline_off_cmd: run the repository's test suite with the verif guard OFF and compare with
/root/.vp/BASELINE.json stable_pass. Exit 0 iff every stable test passes."""
import json, os, subprocess, sys
base = json.load(open("/root/.vp/BASELINE.json"))
env = dict(os.environ, GOFLAGS="-mod=mod", GOPROXY="off")
env.pop("GOSUMDB", None)
pkgs = sys.argv[1:] or ["./..."]
p = subprocess.Popen(["go", "test", "-json", "-vet=off", "-count=1", "-timeout", "25m"] + pkgs, cwd="/repo", env=env, stdout=subprocess.PIPE, text=True)
res = {}
for line in p.stdout:
    try:
        e = json.loads(line)
    except ValueError:
        continue
    if e.get("Test") and e.get("Action") in ("pass", "fail", "skip"):
        res[e["Package"] + "::" + e["Test"]] = e["Action"]
p.wait()
want = base["stable_pass"]
if sys.argv[1:]:
    seen_pk = {k.split("::")[0] for k in res}
    want = [t for t in want if t.split("::")[0] in seen_pk]
bad = [t for t in want if res.get(t) != "pass"]
print("baseline: %d stable tests expected, %d passed, %d not passing" % (len(want), len(want) - len(bad), len(bad)))
for t in bad[:40]:
    print("  NOT PASSING:", t, res.get(t))
sys.exit(1 if bad else 0)
