#!/usr/bin/env python3
"""MANIFEST.setup_cmd: build the framework from files on disk only (offline).
Builds the Go harness from /repo's working tree, regenerates every MM/Gen/*.lean, builds all Lean
modules and engine drivers. Checks rebuild incrementally afterwards."""
import glob, os, sys, subprocess
sys.path.insert(0, os.path.join(os.path.dirname(os.path.abspath(__file__)), "..", "lib"))
import vlib

def main():
    props = sorted(os.path.basename(p)[:-3] for p in glob.glob(os.path.join(vlib.VERIF, "props", "C*.py")))
    vlib.prepare_alt()
    tags, gens, exts, mods, engs = set(), {}, {}, [], set()
    for pid in props:
        P = vlib.load_prop(pid).PROP
        if P.get("disabled"):
            continue
        tags.update(P.get("go_tags", P.get("engines", [])))
        gens.update(P.get("gen_files", {}))
        exts.update(P.get("extract_files", {}))
        mods += P.get("lean_modules", [])
        engs.update(P.get("lean_engines", P.get("engines", [])))
    h, hlog = vlib.build_harness(sorted(tags))
    if h is None:
        print(hlog); print("setup: harness build failed"); return 1
    for rel, eng in gens.items():
        r = subprocess.run([h, eng, "facts"], stdout=subprocess.PIPE, text=True)
        if r.returncode != 0 or not r.stdout.strip():
            print("setup: WARNING facts failed for", eng); continue
        vlib.write_if_changed(os.path.join(vlib.LEAN, rel), r.stdout)
    for rel, spec in exts.items():
        ok, content, detail = vlib.run_extractor(spec)
        if not ok:
            print("setup: WARNING extractor failed for", rel, detail); continue
        vlib.write_if_changed(os.path.join(vlib.LEAN, rel), content)
    ok, out, failed = vlib.lake_build(sorted(set(mods)) + ["drv_" + e.lower() for e in sorted(engs)])
    if not ok:
        # not fatal: every check rebuilds exactly what it needs and reports its own failure
        print(out[-4000:]); print("setup: WARNING lake build had failures", failed)
    print("setup ok: %d properties, %d lean modules, %d engines" % (len(props), len(set(mods)), len(engs)))
    return 0
sys.exit(main())
