#!/usr/bin/env python3
"""Replace references to fixes/<slug>.patch in known/*.json by the /repo commit that applied that patch
(matched by the .msg subject line). Run by the lead after applying patches; never at check time."""
import glob, json, os, re, subprocess
V = os.path.dirname(os.path.dirname(os.path.abspath(__file__)))
log = subprocess.run(["git", "-C", "/repo", "log", "--format=%h\t%s"], stdout=subprocess.PIPE, text=True).stdout.strip().split("\n")
bysubj = {l.split("\t", 1)[1]: l.split("\t", 1)[0] for l in log}
slug2c = {}
for m in glob.glob(os.path.join(V, "fixes", "*.msg")):
    subj = open(m).read().strip().split("\n")[0].strip()
    if subj in bysubj:
        slug2c[os.path.basename(m)[:-4]] = bysubj[subj]
def sub(s):
    def r(mo):
        slug = mo.group(2)
        return slug2c.get(slug, mo.group(0))
    # forms: fixes/X.patch | pending(fixes/X.patch) | PENDING(...) | <pending: fixes/X.patch> | (fixes/X.patch)
    s2 = re.sub(r"(?:<pending:\s*|pending\(|PENDING\(|\()?(fixes/([A-Za-z0-9_.-]+?)\.patch)(?:\)|>)?", r, s)
    return s2
for f in sorted(glob.glob(os.path.join(V, "known", "*.json"))):
    k = json.load(open(f)); before = json.dumps(k)
    k["fixed_log"] = [sub(x) for x in k.get("fixed_log", [])]
    for fd in k.get("findings", []):
        if fd.get("status") == "fixed":
            c = fd.get("commit", "")
            if c:
                fd["commit"] = sub(c)
            if not re.fullmatch(r"[0-9a-f]{7,40}", fd.get("commit", "") or ""):
                # try the patch named in 'patch' field or guess from fixed_log of same property
                p = fd.get("patch", "")
                mo = re.search(r"fixes/([A-Za-z0-9_.-]+?)\.patch", p or "")
                if mo and mo.group(1) in slug2c:
                    fd["commit"] = slug2c[mo.group(1)]
    if json.dumps(k) != before:
        json.dump(k, open(f, "w"), indent=1); print("updated", os.path.basename(f))
print({s: c for s, c in sorted(slug2c.items())})
