#!/usr/bin/env python3
"""Evaluate checks against a seeded breaking change without touching /repo.
usage: tools/seedtest.py <patch.diff> <ID> [<ID>...] [--tier quick|thorough] [--keep]
Creates a scratch worktree of /repo HEAD under /tmp, applies the patch, runs ./check with VERIF_REPO,
prints the verdict lines, removes the worktree and the private Lean copy."""
import hashlib, os, shutil, subprocess, sys
a = sys.argv[1:]; tier = "quick"; keep = False; pos = []
i = 0
while i < len(a):
    if a[i] == "--tier": tier = a[i+1]; i += 2
    elif a[i] == "--keep": keep = True; i += 1
    else: pos.append(a[i]); i += 1
patch, ids = os.path.abspath(pos[0]), pos[1:]
V = os.path.dirname(os.path.dirname(os.path.abspath(__file__)))
wt = "/tmp/seedwt_" + hashlib.sha1((patch + str(os.getpid())).encode()).hexdigest()[:8]
subprocess.run(["git", "-C", "/repo", "worktree", "add", "-q", "--detach", wt, "HEAD"], check=True)
rc_all = 0
try:
    r = subprocess.run(["git", "-C", wt, "apply", patch])
    if r.returncode != 0:
        print("PATCH DOES NOT APPLY"); sys.exit(3)
    env = dict(os.environ, VERIF_REPO=wt)
    for pid in ids:
        r = subprocess.run([os.path.join(V, "check"), pid, "--tier", tier], env=env, stdout=subprocess.PIPE, stderr=subprocess.PIPE, text=True, cwd=V)
        lines = [l for l in r.stdout.split("\n") if l.startswith(("OK", "VIOLATION", "KNOWN-FINDING"))]
        print("%s rc=%d %s" % (pid, r.returncode, " || ".join(lines)[:500]))
        if r.returncode not in (0, 1):
            print(r.stderr[-800:])
finally:
    if not keep:
        subprocess.run(["git", "-C", "/repo", "worktree", "remove", "--force", wt])
        key = hashlib.sha1(wt.encode()).hexdigest()[:10]
        shutil.rmtree("/tmp/verif-alt-" + key, ignore_errors=True)
