#!/usr/bin/env python3
"""Refresh the generated tables inside DESIGN.md (between BEGIN:/END: markers) from known/*.json and seeded/*/meta.json."""
import glob, json, os, re
V = os.path.dirname(os.path.dirname(os.path.abspath(__file__)))
def findings():
    rows = ["| property | finding id | status | commit | what failed (witness in known/<id>.json, corpus/<id>/) |", "|---|---|---|---|---|"]
    for f in sorted(glob.glob(os.path.join(V, "known", "*.json"))):
        for fd in json.load(open(f)).get("findings", []):
            what = re.sub(r"\s+", " ", fd.get("what", ""))[:260].replace("|", "/")
            rows.append("| %s | %s | %s | %s | %s |" % (fd.get("property"), fd.get("id"), fd.get("status"), fd.get("commit", "") if fd.get("status") == "fixed" else "", what))
    return "\n".join(rows)
def seeds():
    rows = ["| seeded change | breaks | what it needs to manifest | verdict |", "|---|---|---|---|"]
    for d in sorted(glob.glob(os.path.join(V, "seeded", "*"))):
        try:
            m = json.load(open(os.path.join(d, "meta.json")))
        except Exception:
            continue
        c = m.get("confirmed_by_lead", {})
        need = re.sub(r"\s+", " ", str(m.get("needs_to_manifest", m.get("summary", ""))))[:220].replace("|", "/")
        verdict = (c.get("verdict", "?") + " — " + c.get("detail", c.get("caught_by", "")) + ((" → " + c["strengthening"]) if c.get("strengthening") else ""))[:420].replace("|", "/")
        rows.append("| seeded/%s | %s | %s | %s |" % (os.path.basename(d), m.get("breaks", "?"), need, verdict))
    return "\n".join(rows)
p = os.path.join(V, "DESIGN.md"); s = open(p).read()
for name, fn in (("FINDINGS", findings), ("SEEDS", seeds)):
    s = re.sub(r"(<!-- BEGIN:%s -->).*?(<!-- END:%s -->)" % (name, name), lambda m: m.group(1) + "\n" + fn() + "\n" + m.group(2), s, flags=re.S)
open(p, "w").write(s)
print("DESIGN.md tables refreshed")
