#!/usr/bin/env python3
"""Refresh the generated tables inside DESIGN.md (between BEGIN:/END: markers) from known/*.json and seeded/*/meta.json."""
import glob, json, os, re
V = os.path.dirname(os.path.dirname(os.path.abspath(__file__)))
def findings():
    rows = ["| property | finding id | status | commit | what failed (witness in known/<id>.json, corpus/<id>/) |", "|---|---|---|---|---|"]
    for f in sorted(glob.glob(os.path.join(V, "known", "*.json"))):
        for fd in json.load(open(f)).get("findings", []):
            what = re.sub(r"\s+", " ", fd.get("what", ""))[:260].replace("|", "/")
            rows.append("| %s | %s | %s | %s | %s |" % (fd.get("property"), fd.get("id"), fd.get("status"), fd.get("commit", "") if fd.get("status") == "fixed" else "", what))
    return "\n".join(rows)
def seeds():
    rows = ["| seeded change | breaks | what it needs to manifest | verdict |", "|---|---|---|---|"]
    for d in sorted(glob.glob(os.path.join(V, "seeded", "*"))):
        try:
            m = json.load(open(os.path.join(d, "meta.json")))
        except Exception:
            continue
        c = m.get("confirmed_by_lead", {})
        need = re.sub(r"\s+", " ", str(m.get("needs_to_manifest", m.get("summary", ""))))[:220].replace("|", "/")
        verdict = (c.get("verdict", "?") + " — " + c.get("detail", c.get("caught_by", "")) + ((" → " + c["strengthening"]) if c.get("strengthening") else ""))[:420].replace("|", "/")
        rows.append("| seeded/%s | %s | %s | %s |" % (os.path.basename(d), m.get("breaks", "?"), need, verdict))
    return "\n".join(rows)
import sys
sys.path.insert(0, os.path.join(V, "lib"))
import vlib
def asbuilt(pid):
    try:
        P = vlib.load_prop(pid).PROP
    except Exception:
        return "*As built:* no check."
    m = P.get("manifest", {})
    th = [t.split(".")[-1] for t in P.get("theorems", [])]
    lines = ["*As built (generated from props/%s.py, known/%s.json, seeded/):*" % (pid, pid), ""]
    lines.append("* claim: %s" % re.sub(r"\s+", " ", m.get("text", ""))[:900])
    lines.append("* technique: %s; engines: %s" % (m.get("technique", ""), ", ".join(P.get("engines", [])) or "-"))
    lines.append("* theorems audited (%d): %s" % (len(th), ", ".join("`%s`" % t for t in th[:40]) + (" …" if len(th) > 40 else "")))
    tb = P.get("trusted_base", []) + P.get("assumptions", [])
    if tb:
        lines.append("* modelled / assumed rather than verified: " + "; ".join(re.sub(r"\s+", " ", x)[:260] for x in tb[:8]) + (" …" if len(tb) > 8 else ""))
    kp = os.path.join(V, "known", pid + ".json")
    if os.path.exists(kp):
        fs = json.load(open(kp)).get("findings", [])
        op = [f["id"] for f in fs if f.get("status") == "open"]; fx = ["%s (%s)" % (f["id"], f.get("commit", "?")) for f in fs if f.get("status") == "fixed"]
        lines.append("* findings: fixed %s; open %s" % (", ".join(fx) or "none", ", ".join(op) or "none"))
    sd = []
    for d in sorted(glob.glob(os.path.join(V, "seeded", pid + "-*"))):
        try:
            c = json.load(open(os.path.join(d, "meta.json"))).get("confirmed_by_lead", {})
        except Exception:
            continue
        sd.append("%s: %s" % (os.path.basename(d), (c.get("now") or c.get("verdict", "?"))[:70]))
    if sd:
        lines.append("* seeded changes: " + "; ".join(sd))
    return "\n".join(lines)
p = os.path.join(V, "DESIGN.md"); s = open(p).read()
for l in open(os.path.join(V, "properties.jsonl")):
    if not l.strip(): continue
    pid = json.loads(l)["id"]
    tag = "ASBUILT-" + pid
    if "<!-- BEGIN:%s -->" % tag not in s:
        s = re.sub(r"(### %s — [^\n]*\n)" % pid, lambda m: m.group(1) + "\n<!-- BEGIN:%s -->\n<!-- END:%s -->\n" % (tag, tag), s, count=1)
    s = re.sub(r"(<!-- BEGIN:%s -->).*?(<!-- END:%s -->)" % (tag, tag), lambda m: m.group(1) + "\n" + asbuilt(pid) + "\n\n*Plan written before the build (kept for reference):*\n" + m.group(2), s, flags=re.S)

for name, fn in (("FINDINGS", findings), ("SEEDS", seeds)):
    s = re.sub(r"(<!-- BEGIN:%s -->).*?(<!-- END:%s -->)" % (name, name), lambda m: m.group(1) + "\n" + fn() + "\n" + m.group(2), s, flags=re.S)
open(p, "w").write(s)
print("DESIGN.md tables refreshed")
