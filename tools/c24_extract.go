//go:build ignore

// c24_extract reads internal/health/server.go with go/ast and prints MM/Gen/C24.lean:
//   - authExemptPaths (keys whose value is the literal `true`),
//   - every mux.HandleFunc(pattern, handler) in NewServer with its enabling condition
//     (top level = always; inside `if cfg.EnableX { ... } else { ... }` = flag X on / off),
//   - whether the mux is wrapped by requireAuth exactly when cfg.TokenHash != "".
//
// Anything it does not understand (new flag, nested condition, non-literal pattern, method or host
// or wildcard pattern) makes it exit non-zero: the C24 model does not cover that shape.
//
// usage (cwd = repo root): go run c24_extract.go internal/health/server   (".go" is appended: go run treats *.go arguments as sources)
package main

import (
	"fmt"
	"go/ast"
	"go/parser"
	"go/token"
	"os"
	"sort"
	"strconv"
	"strings"
)

func die(f string, a ...any) {
	fmt.Fprintf(os.Stderr, "c24_extract: "+f+"\n", a...)
	os.Exit(1)
}

var flagGroup = map[string]int{"EnableRemoteAPI": 1, "EnableDashboard": 2, "EnablePprof": 3}

type route struct {
	pat      string
	grp      int
	whenOn   bool
	disabled bool
	handler  string
}

func chars(s string) string {
	var b strings.Builder
	b.WriteString("[")
	for i, r := range []rune(s) {
		if i > 0 {
			b.WriteString(", ")
		}
		switch r {
		case '\'':
			b.WriteString(`'\''`)
		case '\\':
			b.WriteString(`'\\'`)
		default:
			if r < 0x20 || r > 0x7e {
				die("non-printable character in %q", s)
			}
			b.WriteString("'" + string(r) + "'")
		}
	}
	b.WriteString("]")
	return b.String()
}

func exprString(e ast.Expr) string {
	switch x := e.(type) {
	case *ast.Ident:
		return x.Name
	case *ast.SelectorExpr:
		return exprString(x.X) + "." + x.Sel.Name
	case *ast.CallExpr:
		return exprString(x.Fun) + "(...)"
	}
	return fmt.Sprintf("%T", e)
}

func main() {
	if len(os.Args) != 2 {
		die("usage: c24_extract <server.go>")
	}
	fset := token.NewFileSet()
	file, err := parser.ParseFile(fset, os.Args[1]+".go", nil, 0)
	if err != nil {
		die("%v", err)
	}
	var exempt []string
	var routes []route
	wrapOK := false
	foundNew := false
	for _, d := range file.Decls {
		switch decl := d.(type) {
		case *ast.GenDecl:
			for _, sp := range decl.Specs {
				vs, ok := sp.(*ast.ValueSpec)
				if !ok || len(vs.Names) != 1 || vs.Names[0].Name != "authExemptPaths" || len(vs.Values) != 1 {
					continue
				}
				cl, ok := vs.Values[0].(*ast.CompositeLit)
				if !ok {
					die("authExemptPaths is not a composite literal")
				}
				for _, el := range cl.Elts {
					kv, ok := el.(*ast.KeyValueExpr)
					if !ok {
						die("authExemptPaths: unexpected element")
					}
					k, ok := kv.Key.(*ast.BasicLit)
					if !ok || k.Kind != token.STRING {
						die("authExemptPaths: non-literal key")
					}
					v, ok := kv.Value.(*ast.Ident)
					if !ok || (v.Name != "true" && v.Name != "false") {
						die("authExemptPaths: non-literal value")
					}
					s, _ := strconv.Unquote(k.Value)
					if v.Name == "true" {
						exempt = append(exempt, s)
					}
				}
			}
		case *ast.FuncDecl:
			if decl.Name.Name != "NewServer" || decl.Recv != nil {
				continue
			}
			foundNew = true
			var handle func(stmts []ast.Stmt, grp int, on bool, depth int)
			handle = func(stmts []ast.Stmt, grp int, on bool, depth int) {
				for _, st := range stmts {
					switch s := st.(type) {
					case *ast.ExprStmt:
						call, ok := s.X.(*ast.CallExpr)
						if !ok {
							continue
						}
						sel, ok := call.Fun.(*ast.SelectorExpr)
						if !ok {
							continue
						}
						recv, _ := sel.X.(*ast.Ident)
						if recv == nil || recv.Name != "mux" {
							continue
						}
						if sel.Sel.Name != "HandleFunc" && sel.Sel.Name != "Handle" {
							die("%s: unexpected mux.%s", fset.Position(s.Pos()), sel.Sel.Name)
						}
						lit, ok := call.Args[0].(*ast.BasicLit)
						if !ok || lit.Kind != token.STRING {
							die("%s: non-literal pattern", fset.Position(s.Pos()))
						}
						pat, _ := strconv.Unquote(lit.Value)
						if !strings.HasPrefix(pat, "/") || strings.ContainsAny(pat, "{} ") || strings.Contains(pat, "//") {
							die("%s: pattern %q uses a form (method/host/wildcard) the C24 model does not cover", fset.Position(s.Pos()), pat)
						}
						h := exprString(call.Args[1])
						routes = append(routes, route{pat, grp, on, h == "disabledHandler(...)", h})
					case *ast.IfStmt:
						// if cfg.EnableX { ... } else { ... }   |   if cfg.TokenHash != "" { handler = s.requireAuth(mux) }
						if be, ok := s.Cond.(*ast.BinaryExpr); ok {
							if exprString(be.X) == "cfg.TokenHash" && be.Op == token.NEQ {
								if y, ok := be.Y.(*ast.BasicLit); ok && y.Value == `""` && len(s.Body.List) == 1 && s.Else == nil {
									if as, ok := s.Body.List[0].(*ast.AssignStmt); ok && len(as.Lhs) == 1 && exprString(as.Lhs[0]) == "handler" {
										if c, ok := as.Rhs[0].(*ast.CallExpr); ok && exprString(c.Fun) == "s.requireAuth" && len(c.Args) == 1 && exprString(c.Args[0]) == "mux" {
											wrapOK = true
											continue
										}
									}
								}
							}
							die("%s: unrecognised condition in NewServer", fset.Position(s.Pos()))
						}
						name := exprString(s.Cond)
						if !strings.HasPrefix(name, "cfg.") {
							die("%s: unrecognised condition %s", fset.Position(s.Pos()), name)
						}
						g, ok := flagGroup[strings.TrimPrefix(name, "cfg.")]
						if !ok {
							die("%s: unknown endpoint-group flag %s (extend the C24 model)", fset.Position(s.Pos()), name)
						}
						if depth > 0 {
							die("%s: nested endpoint-group condition", fset.Position(s.Pos()))
						}
						handle(s.Body.List, g, true, depth+1)
						if s.Else != nil {
							eb, ok := s.Else.(*ast.BlockStmt)
							if !ok {
								die("%s: else-if chain in NewServer", fset.Position(s.Pos()))
							}
							handle(eb.List, g, false, depth+1)
						}
					case *ast.SwitchStmt, *ast.ForStmt, *ast.RangeStmt:
						die("%s: control flow the extractor does not understand", fset.Position(st.Pos()))
					}
				}
			}
			handle(decl.Body.List, 0, true, 0)
		}
	}
	if !foundNew || len(routes) == 0 {
		die("NewServer / mux registrations not found")
	}
	if len(exempt) == 0 {
		die("authExemptPaths not found")
	}
	if !wrapOK {
		die("`if cfg.TokenHash != \"\" { handler = s.requireAuth(mux) }` not found in NewServer")
	}
	sort.Strings(exempt)
	fmt.Println("-- GENERATED from /repo internal/health/server.go by tools/c24_extract.go (go/ast). Do not edit.")
	fmt.Println("namespace MM.Gen.C24")
	fmt.Println("/-- keys of `authExemptPaths` -/")
	fmt.Println("def exempt : List (List Char) := [")
	for i, e := range exempt {
		sep := ","
		if i == len(exempt)-1 {
			sep = ""
		}
		fmt.Printf("  %s%s  -- %s\n", chars(e), sep, e)
	}
	fmt.Println("]")
	fmt.Println("/-- every `mux.HandleFunc` of NewServer: (pattern, group, registered when the group flag is on?, is disabledHandler, handler).")
	fmt.Println("    group 0 = unconditional, 1 = EnableRemoteAPI, 2 = EnableDashboard, 3 = EnablePprof -/")
	fmt.Println("def routes : List (List Char × Nat × Bool × Bool × String) := [")
	for i, r := range routes {
		sep := ","
		if i == len(routes)-1 {
			sep = ""
		}
		fmt.Printf("  (%s, %d, %v, %v, %q)%s  -- %s\n", chars(r.pat), r.grp, r.whenOn, r.disabled, r.handler, sep, r.pat)
	}
	fmt.Println("]")
	fmt.Println("/-- NewServer wraps the mux with requireAuth exactly when cfg.TokenHash != \"\" -/")
	fmt.Println("def authWrapIffToken : Bool := true")
	fmt.Println("end MM.Gen.C24")
}
