//go:build ignore

// c24_tokencache checks, with go/ast, the one ordering fact about Server.validateToken that the
// C24 model relies on and that lock-region facts cannot express: the token cache
// (cachedTokenSHA, tokenCacheValid) is written ONLY after bcrypt.CompareHashAndPassword has
// accepted the presented token.  The model's `valid` is a function of the token alone
// ("bcrypt accepts it, or it equals a token bcrypt accepted before"); a cache entry that exists
// before / without a successful comparison makes the answer depend on what other requests are in
// flight.
//
// Shape required (top-level statements of the function body, in order):
//   ... if bcrypt.CompareHashAndPassword(<hash>, <token>) != nil { return false } ...   (the guard)
//   ... assignments to s.cachedTokenSHA / s.tokenCacheValid ...                          (after the guard)
// Every assignment to a cache field anywhere in the function must be such a top-level statement
// located after the guard; the guard must be the only call of CompareHashAndPassword.
//
// Output: Lean facts (MM/Gen/C24Tok.lean).  usage (cwd = repo root): go run c24_tokencache.go internal/health/server
package main

import (
	"fmt"
	"go/ast"
	"go/parser"
	"go/token"
	"os"
)

func die(f string, a ...any) {
	fmt.Fprintf(os.Stderr, "c24_tokencache: "+f+"\n", a...)
	os.Exit(1)
}

func sel(e ast.Expr) string {
	switch x := e.(type) {
	case *ast.Ident:
		return x.Name
	case *ast.SelectorExpr:
		return sel(x.X) + "." + x.Sel.Name
	case *ast.IndexExpr:
		return sel(x.X)
	case *ast.SliceExpr:
		return sel(x.X)
	}
	return "?"
}

var cacheFields = map[string]bool{"s.cachedTokenSHA": true, "s.tokenCacheValid": true}

func isBcryptCall(e ast.Expr) bool {
	c, ok := e.(*ast.CallExpr)
	return ok && sel(c.Fun) == "bcrypt.CompareHashAndPassword"
}

// guard: if bcrypt.CompareHashAndPassword(...) != nil { return false }  (optionally `err := ...; err != nil`)
func isGuard(st ast.Stmt) bool {
	is, ok := st.(*ast.IfStmt)
	if !ok || is.Else != nil || len(is.Body.List) != 1 {
		return false
	}
	ret, ok := is.Body.List[0].(*ast.ReturnStmt)
	if !ok || len(ret.Results) != 1 || sel(ret.Results[0]) != "false" {
		return false
	}
	be, ok := is.Cond.(*ast.BinaryExpr)
	if !ok || be.Op != token.NEQ || sel(be.Y) != "nil" {
		return false
	}
	if is.Init == nil {
		return isBcryptCall(be.X)
	}
	as, ok := is.Init.(*ast.AssignStmt)
	return ok && len(as.Lhs) == 1 && len(as.Rhs) == 1 && isBcryptCall(as.Rhs[0]) && sel(as.Lhs[0]) == sel(be.X)
}

func main() {
	if len(os.Args) != 2 {
		die("usage: c24_tokencache <server (without .go)>")
	}
	fset := token.NewFileSet()
	file, err := parser.ParseFile(fset, os.Args[1]+".go", nil, 0)
	if err != nil {
		die("%v", err)
	}
	var fn *ast.FuncDecl
	for _, d := range file.Decls {
		if f, ok := d.(*ast.FuncDecl); ok && f.Name.Name == "validateToken" && f.Recv != nil {
			fn = f
		}
	}
	if fn == nil {
		die("Server.validateToken not found")
	}
	if len(fn.Recv.List) != 1 || len(fn.Recv.List[0].Names) != 1 || fn.Recv.List[0].Names[0].Name != "s" {
		die("receiver of validateToken is not named s")
	}
	// all cache-field assignments and bcrypt calls anywhere in the function
	totalWrites, bcryptCalls := 0, 0
	ast.Inspect(fn.Body, func(n ast.Node) bool {
		switch x := n.(type) {
		case *ast.AssignStmt:
			for _, l := range x.Lhs {
				if cacheFields[sel(l)] {
					totalWrites++
				}
			}
		case *ast.IncDecStmt:
			if cacheFields[sel(x.X)] {
				totalWrites++
			}
		case *ast.CallExpr:
			if isBcryptCall(x) {
				bcryptCalls++
			}
			// the address of a cache field escaping into a call would hide a write
			for _, a := range x.Args {
				if u, ok := a.(*ast.UnaryExpr); ok && u.Op == token.AND && cacheFields[sel(u.X)] {
					totalWrites += 100
				}
			}
		}
		return true
	})
	// top-level statements: the guard, then the writes
	guards, writesAfterGuard, writesBeforeGuard := 0, 0, 0
	for _, st := range fn.Body.List {
		if isGuard(st) {
			guards++
			continue
		}
		if as, ok := st.(*ast.AssignStmt); ok {
			for _, l := range as.Lhs {
				if cacheFields[sel(l)] {
					if guards > 0 {
						writesAfterGuard++
					} else {
						writesBeforeGuard++
					}
				}
			}
		}
	}
	fmt.Println("-- GENERATED from internal/health/server.go (Server.validateToken) by tools/c24_tokencache.go (go/ast). Do not edit.")
	fmt.Println("namespace MM.Gen.C24Tok")
	fmt.Println("/-- calls of bcrypt.CompareHashAndPassword in validateToken -/")
	fmt.Printf("def bcryptCalls : Nat := %d\n", bcryptCalls)
	fmt.Println("/-- top-level `if bcrypt.CompareHashAndPassword(..) != nil { return false }` statements -/")
	fmt.Printf("def guards : Nat := %d\n", guards)
	fmt.Println("/-- assignments to cachedTokenSHA / tokenCacheValid anywhere in the function -/")
	fmt.Printf("def cacheWrites : Nat := %d\n", totalWrites)
	fmt.Println("/-- … of which: top-level statements located after the guard -/")
	fmt.Printf("def cacheWritesAfterGuard : Nat := %d\n", writesAfterGuard)
	fmt.Println("/-- … top-level statements located before the guard -/")
	fmt.Printf("def cacheWritesBeforeGuard : Nat := %d\n", writesBeforeGuard)
	fmt.Println("end MM.Gen.C24Tok")
}
