"""
Helper shared by props/C11.py .. C15.py (flood engine).

SendFullTable iterates a Go map, so the order in which a replaying agent numbers the
per-origin advertisements is not determined by the op script.  The Lean model therefore takes
that order from the implementation's answer ("follow" mode of the driver): it checks that the
order is a permutation of the model's own origin set (any permutation is admissible, nothing
else is) and then prints the model's own output line, which vlib compares with the
implementation's line as usual.  Everything else in the pipeline (shrinking, spec, known
findings, search, --replay) is vlib's standard flow.
"""


FOLLOW = {"c11", "c12", "c13", "c14", "c15"}


def install_follow(c):
    if getattr(c, "_flood_follow", False):
        return
    c._flood_follow = True
    orig_go, orig_lean = c.go_run, c.lean_run
    last = {}

    def go_run(engine, lines, timeout=None):
        out = orig_go(engine, lines, timeout)
        last["lines"], last["out"] = list(lines), list(out)
        return out

    def lean_run(engine, lines, mode=None):
        if mode is None and engine in FOLLOW:
            if last.get("lines") != list(lines):
                go_run(engine, lines)
            return orig_lean(engine, [op + "\t" + o for op, o in zip(lines, last["out"])], mode="follow")
        return orig_lean(engine, lines, mode)

    c.go_run, c.lean_run = go_run, lean_run
