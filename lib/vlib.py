"""
Shared machinery of /verif checks (see DESIGN.md section 2).

A property check = P (Lean theorems build + axiom audit) + T (tie to /repo: regenerated
facts `MM/Gen/*.lean` and the differential run of the real Go code against the compiled Lean
model `driver`), followed by the failing-input search when anything broke.

Everything is rebuilt from the current working tree of REPO (default /repo; the environment
variable VERIF_REPO points the whole pipeline at another checkout, using a private copy of
the Lean project and build directory so that several trees can be examined in parallel).
"""
import fcntl
import hashlib
import importlib.util
import json
import os
import re
import shutil
import subprocess
import sys
import time

VERIF = os.path.dirname(os.path.dirname(os.path.abspath(__file__)))
REPO = os.path.abspath(os.environ.get("VERIF_REPO", "/repo"))
_ALT = REPO != "/repo"
if _ALT:
    _key = hashlib.sha1(REPO.encode()).hexdigest()[:10]
    ALTROOT = os.path.join(os.environ.get("VERIF_ALT_BASE", "/tmp"), "verif-alt-" + _key)
    LEAN = os.path.join(ALTROOT, "lean")
    BUILD = os.path.join(ALTROOT, "build")
else:
    ALTROOT = None
    LEAN = os.path.join(VERIF, "lean")
    BUILD = os.path.join(VERIF, "build")
HARNESS_SRC = os.path.join(VERIF, "harness")
ALLOWED_AXIOMS = {"propext", "Classical.choice", "Quot.sound"}
FORBIDDEN = re.compile(
    r"\b(sorry|admit|native_decide|bv_decide|implemented_by|unsafe)\b|^\s*axiom\s|maxHeartbeats\s+0\b"
)
GOENV = dict(os.environ, GOFLAGS="-mod=mod", GOPROXY="off")
GOENV.pop("GOSUMDB", None)  # GOSUMDB=off breaks the cached toolchain switch


def log(*a):
    print("[verif]", *a, file=sys.stderr, flush=True)


class Lock:
    def __init__(self, name):
        os.makedirs(BUILD, exist_ok=True)
        self.path = os.path.join(BUILD, "." + name + ".lock")

    def __enter__(self):
        self.f = open(self.path, "w")
        fcntl.flock(self.f, fcntl.LOCK_EX)
        return self

    def __exit__(self, *a):
        fcntl.flock(self.f, fcntl.LOCK_UN)
        self.f.close()


def run(cmd, **kw):
    kw.setdefault("stdout", subprocess.PIPE)
    kw.setdefault("stderr", subprocess.STDOUT)
    kw.setdefault("text", True)
    return subprocess.run(cmd, **kw)


# --------------------------------------------------------------------------- alt tree support


def prepare_alt():
    """When VERIF_REPO is set, work on a private copy of the Lean project."""
    if not _ALT:
        return
    os.makedirs(ALTROOT, exist_ok=True)
    with Lock("alt"):
        run(["rsync", "-a", "--delete", "--exclude", "MM/Gen/", "--exclude", ".lake/", "--exclude", "Drv/", "--exclude", "lakefile.toml", "--exclude", "lake-manifest.json", os.path.join(VERIF, "lean") + "/", LEAN + "/"])
        os.makedirs(os.path.join(LEAN, "MM", "Gen"), exist_ok=True)


# --------------------------------------------------------------------------- Go harness


def overlay_json(path):
    """Overlay that ADDS the harness main package and per-package accessor files to REPO."""
    rep = {}
    main_dir = os.path.join(HARNESS_SRC, "main")
    for dirpath, _dirs, files in os.walk(main_dir):
        rel = os.path.relpath(dirpath, main_dir)
        for f in sorted(files):
            if f.endswith(".go"):
                dst = os.path.normpath(os.path.join(REPO, "cmd/zz_verifharness", rel, f))
                rep[dst] = os.path.join(dirpath, f)
    exp = os.path.join(HARNESS_SRC, "exports")
    if os.path.isdir(exp):
        for d in sorted(os.listdir(exp)):  # directory name: internal__embed -> internal/embed
            pkg = d.replace("__", "/")
            for f in sorted(os.listdir(os.path.join(exp, d))):
                if f.endswith(".go"):
                    rep[os.path.join(REPO, pkg, "zz_verif_" + f)] = os.path.join(exp, d, f)
    extra = os.path.join(HARNESS_SRC, "pkgs")  # whole helper packages: pkgs/internal__verifx/*.go
    if os.path.isdir(extra):
        for d in sorted(os.listdir(extra)):
            pkg = d.replace("__", "/")
            for f in sorted(os.listdir(os.path.join(extra, d))):
                if f.endswith(".go"):
                    rep[os.path.join(REPO, pkg, f)] = os.path.join(extra, d, f)
    for dst in rep:
        if os.path.exists(dst):
            raise RuntimeError("overlay would replace an existing repo file: " + dst)
    with open(path, "w") as fh:
        json.dump({"Replace": rep}, fh, indent=1)


def build_harness(tags, race=False):
    """Build the harness from REPO's working tree. Returns (binary_path | None, log)."""
    os.makedirs(BUILD, exist_ok=True)
    with Lock("go"):
        ov = os.path.join(BUILD, "overlay.json")
        overlay_json(ov)
        for tagset, name in (("verif,all", "harness-all"), ("verif," + ",".join(tags), "harness-" + "-".join(tags))):
            if race:
                name += "-race"
            out = os.path.join(BUILD, name)
            tmp = out + ".tmp%d" % os.getpid()
            cmd = ["go", "build", "-tags", tagset, "-overlay", ov, "-o", tmp]
            if race:
                cmd.append("-race")
            cmd.append("./cmd/zz_verifharness")
            p = run(cmd, cwd=REPO, env=GOENV)
            if p.returncode == 0:
                os.replace(tmp, out)
                return out, p.stdout
            if os.path.exists(tmp):
                os.unlink(tmp)
            first_log = p.stdout
            log("harness build with tags", tagset, "failed")
        return None, first_log


# --------------------------------------------------------------------------- Lean


def lean_decl_at(relfile, line):
    """Name of the declaration enclosing `line` of a Lean file (best effort)."""
    try:
        src = open(os.path.join(LEAN, relfile)).read().split("\n")
    except OSError:
        return relfile
    for i in range(min(line, len(src)) - 1, -1, -1):
        m = re.match(r"\s*(?:@\[[^\]]*\]\s*)?(?:private\s+|protected\s+)?(theorem|lemma|def|example|instance|abbrev|structure|inductive)\s+([^\s:({\[]+)?", src[i])
        if m:
            return (m.group(2) or "example") + "@" + relfile + ":" + str(i + 1)
    return relfile + ":" + str(line)


def write_if_changed(path, content):
    try:
        if open(path).read() == content:
            return False
    except OSError:
        pass
    os.makedirs(os.path.dirname(path), exist_ok=True)
    with open(path, "w") as fh:
        fh.write(content)
    return True


def engine_modules():
    d = os.path.join(LEAN, "MM", "Engine")
    return sorted(f[:-5] for f in os.listdir(d) if f.endswith(".lean") and f != "Basic.lean")


def gen_lakefile():
    mods = engine_modules()
    s = 'name = "MM"\nversion = "0.1.0"\ndefaultTargets = ["MM"]\n\n[[lean_lib]]\nname = "MM"\nglobs = ["MM.+"]\n\n'
    s += '[[lean_lib]]\nname = "Drv"\nglobs = ["Drv.+"]\n\n'
    for m in mods:
        s += '[[lean_exe]]\nname = "drv_%s"\nroot = "Drv.%s"\n\n' % (m.lower(), m)
        write_if_changed(
            os.path.join(LEAN, "Drv", m + ".lean"),
            "-- GENERATED by lib/vlib.py. Do not edit.\nimport MM.Engine.%s\n"
            "def main (args : List String) : IO UInt32 := do\n  MM.Engine.%s.main args\n  pure 0\n" % (m, m),
        )
    write_if_changed(os.path.join(LEAN, "lakefile.toml"), s)


def lake_build(targets):
    """Returns (ok, output, [failed decl names])."""
    with Lock("lake"):
        gen_lakefile()
        p = run(["lake", "build"] + targets, cwd=LEAN)
    out = p.stdout
    failed = []
    for m in re.finditer(r"^error: (\S+\.lean):(\d+):(\d+): (.*)$", out, re.M):
        failed.append(lean_decl_at(m.group(1), int(m.group(2))) + " :: " + m.group(4)[:160])
    return p.returncode == 0, out, failed


def audit_axioms(modules, theorems):
    """#print axioms for each theorem. Returns dict name -> list of axioms | None (missing)."""
    src = "".join("import %s\n" % m for m in modules)
    for t in theorems:
        src += "#print axioms %s\n" % t
    os.makedirs(os.path.join(BUILD, "tmp"), exist_ok=True)
    path = os.path.join(BUILD, "tmp", "audit_%d.lean" % os.getpid())
    with open(path, "w") as fh:
        fh.write(src)
    p = run(["lake", "env", "lean", path], cwd=LEAN)
    os.unlink(path)
    res = {t: None for t in theorems}
    text = p.stdout
    # "'X' depends on axioms: [a, b]" (possibly wrapped) | "'X' does not depend on any axioms"
    for m in re.finditer(r"'([^']+)' depends on axioms: \[([^\]]*)\]", text, re.S):
        res[m.group(1)] = [a.strip() for a in m.group(2).replace("\n", " ").split(",") if a.strip()]
    for m in re.finditer(r"'([^']+)' does not depend on any axioms", text):
        res[m.group(1)] = []
    return res, text


def grep_forbidden(files):
    hits = []
    for rel in files:
        p = os.path.join(LEAN, rel)
        if not os.path.exists(p):
            continue
        in_block = 0
        for n, line in enumerate(open(p), 1):
            code = line
            # strip block comments (non-nested approximation good enough for our sources) and line comments
            out = ""
            i = 0
            while i < len(code):
                if code.startswith("/-", i):
                    in_block += 1
                    i += 2
                elif code.startswith("-/", i) and in_block:
                    in_block -= 1
                    i += 2
                elif in_block:
                    i += 1
                elif code.startswith("--", i):
                    break
                else:
                    out += code[i]
                    i += 1
            if FORBIDDEN.search(out):
                hits.append("%s:%d: %s" % (rel, n, line.strip()[:120]))
    return hits


def module_file(mod):
    return mod.replace(".", "/") + ".lean"


def transitive_local_imports(mods):
    seen, todo = [], list(mods)
    while todo:
        m = todo.pop()
        if m in seen or not m.startswith("MM."):
            continue
        seen.append(m)
        p = os.path.join(LEAN, module_file(m))
        if os.path.exists(p):
            for line in open(p):
                mm = re.match(r"\s*import\s+(\S+)", line)
                if mm:
                    todo.append(mm.group(1))
    return seen


# --------------------------------------------------------------------------- differential run


def read_ops(text):
    return [l for l in text.split("\n") if l.strip() and not l.startswith("#")]


def run_lines(cmd, lines, timeout, env=None, restartable=True):
    """Feed `lines` to a line-protocol process; survive crashes: the line the process died on is
    answered 'crash' and the process is restarted on the remaining lines (after the next 'reset'
    if the script has cases). Returns list of outputs, same length as lines."""
    outs = []
    pos = 0
    guard = 0
    while pos < len(lines):
        guard += 1
        data = "\n".join(lines[pos:]) + "\n"
        try:
            p = subprocess.run(cmd, input=data, stdout=subprocess.PIPE, stderr=subprocess.PIPE, text=True, timeout=timeout, env=env)
            got = p.stdout.split("\n")
            if got and got[-1] == "":
                got.pop()
            stderr_tail = p.stderr[-400:]
        except subprocess.TimeoutExpired as e:
            so = e.stdout or ""
            if isinstance(so, bytes):
                so = so.decode(errors="replace")
            got = so.split("\n")
            if got:
                got.pop()  # last line may be partial
            stderr_tail = "timeout"
        need = len(lines) - pos
        if len(got) >= need:
            outs.extend(got[:need])
            break
        outs.extend(got)
        pos += len(got)
        outs.append("crash " + re.sub(r"\s+", "_", stderr_tail.strip())[-200:])
        pos += 1
        if not restartable or guard > 6:
            outs.extend(["crash not-run"] * (len(lines) - pos))
            break
        # skip to next case boundary if the script is case-structured
        if any(l.startswith("reset") for l in lines):
            while pos < len(lines) and not lines[pos].startswith("reset"):
                outs.append("crash not-run")
                pos += 1
    return outs


def outputs_agree(go_out, lean_out):
    """Lean may answer with a set of admissible outputs: `anyof a | b | c`."""
    if lean_out.startswith("anyof "):
        return go_out in [x.strip() for x in lean_out[6:].split(" | ")]
    return go_out == lean_out


def cases_of(lines):
    """Split a script into independent cases: [(start,end)] — at 'reset' lines, else one per line."""
    if not any(l.startswith("reset") for l in lines):
        return [(i, i + 1) for i in range(len(lines))]
    idx = [i for i, l in enumerate(lines) if l.startswith("reset")]
    if not idx or idx[0] != 0:
        idx = [0] + idx
    return [(a, b) for a, b in zip(idx, idx[1:] + [len(lines)])]


# --------------------------------------------------------------------------- the check itself


class Check:
    def __init__(self, prop, tier, seed):
        self.p = prop
        self.id = prop["id"]
        self.tier = tier
        self.seed = seed
        self.t0 = time.time()
        self.obligations = []  # dicts: name, kind, ok, detail
        self.violations = []  # dicts: what, replay (dict), found_input (bool)
        self.known_reported = []
        self.cov = {
            "correspondence_cases": 0,
            "ops_by_kind": {},
            "outputs_by_class": {},
            "samples": [],
            "spec_checked": 0,
            "spec_fail_known": 0,
        }
        self.nontrivial = set()
        self.axioms = {}
        self.tmp = os.path.join(BUILD, "run-%s-%d" % (self.id, os.getpid()))
        os.makedirs(self.tmp, exist_ok=True)
        self.harness = None
        self.drivers = {}
        self.known = [k for k in load_known() if k.get("property") == self.id]

    # ---- obligations
    def oblige(self, name, kind, ok, detail=""):
        self.obligations.append({"name": name, "kind": kind, "ok": bool(ok), "detail": detail[:2000]})
        if not ok:
            log("obligation FAILED:", kind, name, "::", detail[:300].replace("\n", " | "))

    def violate(self, what, replay, found_input):
        self.violations.append({"what": what, "replay": replay, "found_input": found_input})

    # ---- stages
    def stage_build(self):
        p = self.p
        prepare_alt()
        engines = p.get("engines", [])
        tags = p.get("go_tags", [e for e in engines])
        if tags:
            self.harness_shared, hlog = build_harness(tags, race=False)
            ok = self.harness_shared is not None
            self.oblige("harness-builds-from-working-tree", "tie", ok, "" if ok else hlog)
            if ok:
                self.harness = os.path.join(self.tmp, "harness")
                shutil.copy2(self.harness_shared, self.harness)
        # regenerated facts
        if self.harness:
            for rel, eng in p.get("gen_files", {}).items():
                r = run([self.harness, eng, "facts"], stderr=subprocess.PIPE)
                ok = r.returncode == 0 and r.stdout.strip() != ""
                self.oblige("facts:" + rel, "tie", ok, r.stderr if not ok else "")
                if ok:
                    with Lock("lake"):
                        write_if_changed(os.path.join(LEAN, rel), r.stdout)
        # AST-level facts produced by the extractor (optional)
        for rel, spec in p.get("extract_files", {}).items():
            ok, content, detail = run_extractor(spec)
            self.oblige("extract:" + rel, "tie", ok, detail)
            if ok:
                with Lock("lake"):
                    write_if_changed(os.path.join(LEAN, rel), content)
        # Lean
        mods = p.get("lean_modules", [])
        # drivers first and on their own: a theorem that no longer builds must not take the model
        # driver down with it, or the differential run and the failing-input search could not happen
        drv_targets = ["drv_" + e.lower() for e in p.get("lean_engines", engines)]
        drv_ok = True
        if drv_targets:
            drv_ok, dout, dfailed = lake_build(drv_targets)
            if not drv_ok:
                for f in (dfailed[:5] or ["driver-build"]):
                    self.oblige("lean:" + f.split(" :: ")[0], "tie", False, f + "\n" + dout[-2000:])
        ok, out, failed = lake_build(list(mods)) if mods else (True, "", [])
        self.lake_ok = ok
        if not ok:
            tail = out[-3000:]
            if failed:
                for f in failed[:10]:
                    self.oblige("lean:" + f.split(" :: ")[0], "thm", False, f + "\n" + tail)
            else:
                self.oblige("lean:build", "thm", False, tail)
        for e in p.get("lean_engines", engines):
            src = os.path.join(LEAN, ".lake", "build", "bin", "drv_" + e.lower())
            if os.path.exists(src) and drv_ok:
                dst = os.path.join(self.tmp, "drv_" + e.lower())
                shutil.copy2(src, dst)
                self.drivers[e] = dst

    def stage_audit(self):
        p = self.p
        thms = p.get("theorems", [])
        if not thms:
            return
        mods = p.get("lean_modules", [])
        if self.lake_ok:
            res, text = audit_axioms(mods, thms)
        else:
            res, text = {t: None for t in thms}, "lean build failed"
        for t in thms:
            ax = res.get(t)
            self.axioms[t] = ax
            if ax is None:
                self.oblige("thm:" + t, "thm", False, "theorem not available: " + text[-500:])
            else:
                bad = [a for a in ax if a not in ALLOWED_AXIOMS]
                self.oblige("thm:" + t, "thm", not bad, "axioms: " + ", ".join(ax))
        files = [module_file(m) for m in transitive_local_imports(mods)]
        hits = grep_forbidden(files)
        self.oblige("no-sorry-admit-native_decide-axiom", "audit", not hits, "\n".join(hits))
        if self.tier == "thorough" and self.lake_ok:
            for m in mods:
                r = run(["lake", "env", "leanchecker", m], cwd=LEAN)
                self.oblige("leanchecker:" + m, "audit", r.returncode == 0, r.stdout[-500:])

    # ---- correspondence
    def go_run(self, engine, lines, timeout=None):
        env = dict(os.environ, GOMEMLIMIT="6GiB", TMPDIR=self.tmp)
        return run_lines([self.harness, engine, "run"], lines, timeout or self.p.get("timeout", 420), env=env)

    def lean_run(self, engine, lines, mode=None):
        cmd = [self.drivers[engine]] + ([mode] if mode else [])
        return run_lines(cmd, lines, 900, restartable=False)

    def go_gen(self, engine, seed, tier):
        r = run([self.harness, engine, "gen", str(seed), tier], stderr=subprocess.PIPE)
        if r.returncode != 0:
            return None, r.stderr
        return read_ops(r.stdout), ""

    def count(self, op, out):
        kind = op.split(" ", 1)[0]
        self.cov["ops_by_kind"][kind] = self.cov["ops_by_kind"].get(kind, 0) + 1
        cls = " ".join(out.split(" ")[:2]) if not out.startswith("ok ") else "ok"
        cls = cls[:40]
        obc = self.cov["outputs_by_class"]
        if cls in obc or len(obc) < 60:
            obc[cls] = obc.get(cls, 0) + 1
        nt = self.p.get("nontrivial")
        if nt is None or nt(op, out):
            self.nontrivial.add(hashlib.sha1((op + "\t" + out).encode()).digest()[:8])

    def diff_script(self, engine, lines, origin):
        """Run one op script on both sides. Returns True when they agree (and the spec holds)."""
        if not lines:
            return True
        go = self.go_run(engine, lines)
        lean = self.lean_run(engine, lines)
        cases = cases_of(lines)
        self.cov["correspondence_cases"] += len(cases)
        for i, (op, o) in enumerate(zip(lines, go)):
            self.count(op, o)
        if len(self.cov["samples"]) < 6:
            for i in range(0, len(lines), max(1, len(lines) // 3)):
                if len(self.cov["samples"]) < 6:
                    self.cov["samples"].append({"engine": engine, "op": lines[i][:300], "impl": go[i][:300], "model": lean[i][:300]})
        ok = True
        # 1. correspondence
        for a, b in cases:
            bad = [i for i in range(a, b) if not outputs_agree(go[i], lean[i])]
            if bad:
                ok = False
                self.report_disagreement(engine, lines[a:b], origin, bad[0] - a)
                break
        # 2. executable statement of the property on the implementation's own answers
        if self.p.get("spec") and engine in self.p.get("spec_engines", self.p.get("engines", [])):
            spec_in = [op + "\t" + o for op, o in zip(lines, go)]
            verdicts = self.lean_run(engine, spec_in, mode="spec")
            self.cov["spec_checked"] += len(verdicts)
            for a, b in cases:
                fails = [i for i in range(a, b) if verdicts[i].startswith("fail")]
                if not fails:
                    continue
                tag = verdicts[fails[0]][5:].strip()
                kf = self.match_known(tag)
                if kf is not None:
                    self.cov["spec_fail_known"] += 1
                    continue
                ok = False
                case = lines[a:b]
                case_go = go[a:b]
                self.violate(
                    "property statement fails on the implementation: " + tag,
                    {"engine": engine, "origin": origin, "ops": case[: fails[0] - a + 1], "impl_outputs": case_go[: fails[0] - a + 1], "spec_verdict": verdicts[fails[0]]},
                    True,
                )
                break
        return ok

    def match_known(self, tag):
        for k in self.known:
            if k.get("status") == "open" and any(tag.startswith(s) for s in k.get("spec_tags", [])):
                return k
        return None

    def still_disagrees(self, engine, case):
        go = self.go_run(engine, case, timeout=120)
        lean = self.lean_run(engine, case)
        for i in range(len(case)):
            if not outputs_agree(go[i], lean[i]):
                return i, go, lean
        return None, go, lean

    def report_disagreement(self, engine, case, origin, first_bad):
        # shrink: drop ops (never the case header) while the two sides still disagree somewhere
        cur = case[: first_bad + 1]
        idx, go, lean = self.still_disagrees(engine, cur)
        if idx is None:  # not reproducible in isolation (state leaked across cases?) — keep the full case
            cur = case
            idx, go, lean = self.still_disagrees(engine, cur)
        if idx is not None and len(cur) > 1:
            changed = True
            budget = 200
            while changed and budget > 0:
                changed = False
                start = 1 if cur[0].startswith("reset") else 0
                for j in range(len(cur) - 2, start - 1, -1):
                    budget -= 1
                    if budget <= 0:
                        break
                    cand = cur[:j] + cur[j + 1 :]
                    k, g2, l2 = self.still_disagrees(engine, cand)
                    if k is not None:
                        cur, idx, go, lean = cand[: k + 1], k, g2, l2
                        changed = True
                        break
        replay = {"engine": engine, "origin": origin, "ops": cur}
        if idx is None:
            replay["note"] = "disagreement seen in the full run did not reproduce in isolation"
            go = lean = []
        else:
            replay["impl_outputs"] = go[: idx + 1]
            replay["model_outputs"] = lean[: idx + 1]
            replay["first_disagreement"] = {"op": cur[idx], "impl": go[idx], "model": lean[idx]}
        found = False
        if idx is not None and self.p.get("spec") and engine in self.drivers:
            verdicts = self.lean_run(engine, [op + "\t" + o for op, o in zip(cur, go)], mode="spec")
            fails = [v for v in verdicts if v.startswith("fail")]
            replay["spec_verdicts"] = verdicts
            if fails and self.match_known(fails[0][5:].strip()) is None:
                found = True
        if idx is not None and any(o.startswith(("panic", "crash")) for o in go) and self.p.get("panic_is_violation", True):
            found = True
        self.oblige("correspondence:" + engine, "tie", False, json.dumps(replay.get("first_disagreement", {}))[:600])
        self.violate("implementation and model disagree" + ("; the implementation's answer violates the property statement" if found else ""), replay, found)

    def stage_diff(self):
        p = self.p
        if not self.harness:
            return
        for engine in p.get("engines", []):
            if engine not in self.drivers:
                continue
            agreed = True
            # corpus first (minimised past failures / witnesses of fixed defects)
            cdir = os.path.join(VERIF, "corpus", self.id)
            if os.path.isdir(cdir):
                for f in sorted(os.listdir(cdir)):
                    if f.endswith(".ops") and (f.startswith(engine + "-") or len(p.get("engines", [])) == 1):
                        lines = read_ops(open(os.path.join(cdir, f)).read())
                        agreed &= self.diff_script(engine, lines, "corpus/" + self.id + "/" + f)
            lines, err = self.go_gen(engine, self.seed, self.tier)
            if lines is None:
                self.oblige("generator:" + engine, "tie", False, err)
                continue
            # large scripts are processed in chunks at case boundaries
            chunk = p.get("chunk", 4000)
            cs = cases_of(lines)
            i = 0
            while i < len(cs):
                a = cs[i][0]
                j = i
                while j < len(cs) and cs[j][1] - a <= chunk:
                    j += 1
                j = max(j, i + 1)
                b = cs[j - 1][1]
                agreed &= self.diff_script(engine, lines[a:b], "gen seed=%d tier=%s" % (self.seed, self.tier))
                if not agreed:
                    break
                i = j
            if agreed:
                self.oblige("correspondence:" + engine, "tie", True, "%d generated ops agreed" % len(lines))

    def stage_known(self):
        """Replay every listed finding's witness on the implementation."""
        for k in self.known:
            eng = k.get("engine")
            if not eng or eng not in self.drivers or not self.harness:
                continue
            ops = k.get("ops", [])
            go = self.go_run(eng, ops, timeout=300)
            verdicts = self.lean_run(eng, [op + "\t" + o for op, o in zip(ops, go)], mode="spec")
            fails = [v for v in verdicts if v.startswith("fail")]
            if k.get("status") == "open":
                if fails and any(fails[0][5:].strip().startswith(s) for s in k.get("spec_tags", [])):
                    print("KNOWN-FINDING: property=%s %s [%s]" % (self.id, k.get("what", ""), k.get("id", "")), flush=True)
                    self.known_reported.append(k.get("id"))
                elif fails:
                    self.violate("known-finding witness now fails differently: " + fails[0], {"engine": eng, "ops": ops, "impl_outputs": go, "spec_verdicts": verdicts}, True)
                else:
                    log("known finding", k.get("id"), "no longer reproduces on this tree (not an error)")
            else:  # fixed: must stay fixed
                if fails:
                    self.violate("previously fixed defect is back: " + k.get("what", ""), {"engine": eng, "ops": ops, "impl_outputs": go, "spec_verdicts": verdicts}, True)

    def stage_search(self):
        """Something broke but no failing input yet: look for one with the thorough generator."""
        if not self.violations and all(o["ok"] for o in self.obligations):
            return
        if any(v["found_input"] for v in self.violations):
            return
        if not (self.harness and self.p.get("spec")):
            return
        deadline = time.time() + self.p.get("search_seconds", 60)
        s = self.seed
        for engine in self.p.get("engines", []):
            if engine not in self.drivers:
                continue
            while time.time() < deadline:
                s += 1000
                lines, _ = self.go_gen(engine, s, "quick")
                if not lines:
                    break
                go = self.go_run(engine, lines)
                verdicts = self.lean_run(engine, [op + "\t" + o for op, o in zip(lines, go)], mode="spec")
                for a, b in cases_of(lines):
                    fails = [i for i in range(a, b) if verdicts[i].startswith("fail") or go[i].startswith(("panic", "crash"))]
                    if fails and self.match_known(verdicts[fails[0]][5:].strip()) is None:
                        self.violate("search found an input on which the implementation violates the statement", {"engine": engine, "origin": "search seed=%d" % s, "ops": lines[a : fails[0] + 1], "impl_outputs": go[a : fails[0] + 1], "spec_verdict": verdicts[fails[0]]}, True)
                        return

    # ---- wrap-up
    def finish(self):
        p = self.p
        failed = [o for o in self.obligations if not o["ok"]]
        wall = time.time() - self.t0
        violated = bool(failed or self.violations)
        replay_path = None
        if violated:
            os.makedirs(os.path.join(VERIF, "replays"), exist_ok=True)
            replay_path = os.path.join(VERIF, "replays", "%s-%d.json" % (self.id, self.seed))
            found = any(v["found_input"] for v in self.violations)
            vio = sorted(self.violations, key=lambda v: not v["found_input"])
            with open(replay_path, "w") as fh:
                json.dump(
                    {
                        "property": self.id,
                        "seed": self.seed,
                        "tier": self.tier,
                        "repo": REPO,
                        "failed_obligations": failed,
                        "violations": vio,
                        "failing_input_found": found,
                        "how_to_replay": "./check %s --replay %s" % (self.id, replay_path),
                    },
                    fh,
                    indent=1,
                )
        ev = {
            "property_id": self.id,
            "tier": self.tier,
            "seed": self.seed,
            "level": p.get("level", "proof"),
            "coverage": {
                "obligations": len(self.obligations),
                "discharged": len(self.obligations) - len(failed),
                "checker_cmd": "cd /verif/lean && lake build %s && lake env lean <#print axioms audit>%s" % (" ".join(p.get("lean_modules", [])), " && lake env leanchecker <module>" if self.tier == "thorough" else ""),
                "trusted_base": p.get("trusted_base", []) + ["Lean 4.33.0 kernel", "/verif/lib/vlib.py and the Go harness (correspondence check)", "Go toolchain and runtime"],
                "obligation_list": [{k: o[k] for k in ("name", "kind", "ok")} for o in self.obligations],
                "axioms_per_theorem": self.axioms,
                "evaluations": sum(self.cov["ops_by_kind"].values()),
                "distinct_nontrivial": len(self.nontrivial),
                "rule": p.get("rule", "every generated op is run on the real code and on the Lean model; distinct = distinct (op, answer) pairs"),
                "samples": self.cov["samples"] or [{"note": "no correspondence run (proof/tie obligations only)"}],
                "correspondence_cases": self.cov["correspondence_cases"],
                "ops_by_kind": self.cov["ops_by_kind"],
                "outputs_by_class": self.cov["outputs_by_class"],
                "spec_checked_on_impl_answers": self.cov["spec_checked"],
                "spec_failures_matching_known_findings": self.cov["spec_fail_known"],
                "known_findings_reported": self.known_reported,
                "theorems": p.get("theorems", []),
            },
            "assumptions": p.get("assumptions", []),
            "wall_s": round(wall, 2),
            "violations": len(self.violations) + (1 if failed and not self.violations else 0),
        }
        ev["coverage"].update(self.p.get("extra_coverage", {}))
        os.makedirs(os.path.join(VERIF, "evidence"), exist_ok=True)
        if not _ALT:
            with open(os.path.join(VERIF, "evidence", self.id + ".json"), "w") as fh:
                json.dump(ev, fh, indent=1)
        shutil.rmtree(self.tmp, ignore_errors=True)
        if violated:
            found = any(v["found_input"] for v in self.violations)
            print("VIOLATION property=%s replay=%s%s" % (self.id, replay_path, "" if found else " no-failing-input-found"), flush=True)
            return 1
        print("OK property=%s tier=%s seed=%d obligations=%d/%d correspondence_ops=%d wall=%.1fs" % (self.id, self.tier, self.seed, len(self.obligations) - len(failed), len(self.obligations), ev["coverage"]["evaluations"], wall), flush=True)
        return 0


def load_known():
    """known/<ID>.json files are the committed source; known_findings.json is their generated index."""
    out = []
    d = os.path.join(VERIF, "known")
    if os.path.isdir(d):
        for f in sorted(os.listdir(d)):
            if f.endswith(".json"):
                out.extend(json.load(open(os.path.join(d, f))).get("findings", []))
    return out


def run_extractor(spec):
    """spec: {"cmd": [...]} — a program (run with cwd=REPO) that prints Lean source; exit!=0 = tie broken."""
    cmd = [c.replace("{VERIF}", VERIF).replace("{REPO}", REPO) for c in spec["cmd"]]
    r = run(cmd, cwd=REPO, env=GOENV, stderr=subprocess.PIPE)
    return r.returncode == 0 and r.stdout.strip() != "", r.stdout, r.stderr[-1500:]


def load_prop(pid):
    path = os.path.join(VERIF, "props", pid + ".py")
    spec = importlib.util.spec_from_file_location("prop_" + pid, path)
    mod = importlib.util.module_from_spec(spec)
    spec.loader.exec_module(mod)
    return mod


def main_check(pid, tier, seed, replay=None):
    mod = load_prop(pid)
    prop = mod.PROP
    c = Check(prop, tier, seed)
    try:
        if hasattr(mod, "setup"):  # optional: props/Cxx.py may customise the Check object (all modes, incl. --replay)
            mod.setup(c)
        c.stage_build()
        c.stage_audit()
        if replay:
            r = json.load(open(replay))
            for v in r.get("violations", []):
                rp = v.get("replay", {})
                if rp.get("ops") and rp.get("engine") in c.drivers and c.harness:
                    go = c.go_run(rp["engine"], rp["ops"])
                    lean = c.lean_run(rp["engine"], rp["ops"])
                    for op, g, l in zip(rp["ops"], go, lean):
                        print("op   : %s\nimpl : %s\nmodel: %s" % (op, g, l))
                    c.diff_script(rp["engine"], rp["ops"], "replay " + replay)
        else:
            if hasattr(mod, "before_diff"):
                mod.before_diff(c)
            c.stage_diff()
            if hasattr(mod, "extra"):
                mod.extra(c)
            c.stage_known()
            c.stage_search()
    except Exception as e:  # machinery failure is never silently a pass
        import traceback

        c.oblige("machinery", "tie", False, traceback.format_exc())
    return c.finish()
